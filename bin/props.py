"""Per-property plan for bin/check: design-level TLC models, TLC behaviour generators,
conformance drivers (harness sub-commands) and the property id handed to the trace
specification (which selects the fields that are compared)."""
import json


def impl_rows(mns=None, pred=None):
    def f(forms_path):
        out = []
        for line in open(forms_path):
            r = json.loads(line)
            if r["st"] != "impl":
                continue
            if mns is not None and r["mn"] not in mns:
                continue
            if pred is not None and not pred(r):
                continue
            out.append(r["id"])
        return out
    return f


def step_cases(prop, extra=None, name="cases", profile="release"):
    a = ["step-cases", "--prop", prop, "--tier", "{tier}", "--forms", "{forms}", "--out", "{out}", "--threads", "{threads}", "--seed", "{seed}"]
    if extra:
        a += extra
    return dict(name=name, args=a, profile=profile)


COMMON_ASSUME = [
    "the TLA+ specification is a faithful transcription of the H8/300H programming manual / the property text (cross-checked by the design-level models, adjudicated on every disagreement)",
    "the harness's projection of the emulator state (register file, CCR, PC, whole-memory diff of the five backing stores) is complete for the state the property talks about",
    "TLC evaluates the specification correctly",
]

PROPS = {
    "C01": dict(
        drivers=[step_cases("C01")],
        mc=[dict(module="MC_Step.tla", cfg="MC_Step_C01.cfg", workers=14)],
        must_cover=impl_rows({"MOV"}),
        rule="every MOV form of the exported table x every admissible register nibble (systematic) x all 256 CCR values (cyclic) x operand addresses in on-chip RAM / DRAM / vector area (edges and interior) x boundary+seeded-random data; one real single-step per event, validated against StepF; distinct = distinct events",
        assumptions=COMMON_ASSUME,
    ),
    "C02": dict(drivers=[step_cases("C02")], mc=[dict(module="MC_Alu.tla", cfg="MC_Alu.cfg", cfg_q="MC_Alu_q.cfg", workers=14)], must_cover=impl_rows({"ADD", "SUB", "CMP", "ADDX", "NEG", "INC", "DEC", "ADDS", "SUBS", "MULXU", "DIVXU"}),
                rule="every arithmetic form x every register nibble pair (systematic) x all 256 CCR (cyclic) x boundary-cross-product + related (b=a, ~a, -a) + seeded random operand values", assumptions=COMMON_ASSUME),
    "C03": dict(drivers=[step_cases("C03")], mc=[dict(module="MC_Alu.tla", cfg="MC_Alu.cfg", cfg_q="MC_Alu_q.cfg", workers=14)], must_cover=impl_rows({"AND", "OR", "XOR", "NOT", "EXTU", "SHAL", "SHAR", "SHLL", "SHLR", "ROTL", "ROTR", "ROTXL", "ROTXR"}),
                rule="every logic/shift/rotate form x register nibbles x all 256 CCR x boundary + random values", assumptions=COMMON_ASSUME),
    "C04": dict(drivers=[step_cases("C04")], mc=[dict(module="MC_Step.tla", cfg="MC_Step_C04.cfg", workers=14)], must_cover=impl_rows({"BSET", "BCLR", "BNOT", "BTST", "BST", "BIST", "BLD", "BILD", "BAND", "BIAND", "BOR", "BIOR", "BXOR", "BIXOR"}),
                rule="every bit-manipulation form x operand/bit/address register nibbles x values x bit numbers x C", assumptions=COMMON_ASSUME),
    "C05": dict(gen=[dict(name="words", module="MC_CallRet.tla", cfg="MC_CallRet_t.cfg", cfg_q="MC_CallRet.cfg")],
                drivers=[step_cases("C05"),
                         dict(name="callret", module="TraceRun.tla", args=["callret", "--in", "{words}", "--out", "{out}", "--threads", "{threads}", "--seed", "{seed}"])],
                mc=[dict(module="MC_Step.tla", cfg="MC_Step_C05.cfg", workers=14)], must_cover=impl_rows({"BCC", "JMP", "JSR", "BSR", "RTS"}),
                rule="16 conditions x 256 CCR x both Bcc forms x displacements; JMP/JSR/BSR/RTS x target registers x SP placements incl. non-zero upper byte", assumptions=COMMON_ASSUME),
    "C06": dict(gen=[dict(name="sched", module="MC_Intc.tla", cfg="Gen_Irq_t.cfg", cfg_q="Gen_Irq_q.cfg")],
                drivers=[step_cases("C06"),
                         dict(name="acc", module="TraceRun.tla", args=["acc-cases", "--tier", "{tier}", "--out", "{out}", "--threads", "{threads}", "--seed", "{seed}"]),
                         dict(name="irq", module="TraceRun.tla", args=["irq-replay", "--tier", "{tier}", "--in", "{sched}", "--out", "{out}", "--threads", "{threads}", "--seed", "{seed}"])],
                mc=[dict(module="MC_Step.tla", cfg="MC_Step_C06.cfg", workers=14)], must_cover=impl_rows({"TRAPA", "RTE"}),
                rule="TRAPA #1-3 / RTE x CCR x SP placements x vector contents with non-zero top byte", assumptions=COMMON_ASSUME),
    "C08": dict(drivers=[step_cases("C08")], mc=[dict(module="MC_Step.tla", cfg="MC_Step_C08.cfg", workers=14)], must_cover=impl_rows(pred=lambda r: r["a"][0] in ("IND", "D16", "D24", "INC", "DEC", "A8", "A16", "A24") or r["b"][0] in ("IND", "D16", "D24", "INC", "DEC", "A8", "A16", "A24")),
                rule="every form with a memory operand x base registers with upper byte 00/01/7F/80/FF/5A/A5 x wrapping displacements x region edges; tagged memory makes the accessed location observable", assumptions=COMMON_ASSUME),
    "C20": dict(drivers=[step_cases("C20")], mc=[dict(module="MC_Cost.tla", cfg="MC_Cost.cfg", workers=14)], must_cover=impl_rows(),
                rule="every implemented form x code in on-chip RAM / DRAM x operand, stack, vector placement x 6 bus-controller settings with pairwise distinct per-cycle costs; only the charged state count is compared", assumptions=COMMON_ASSUME),
    "C07": dict(drivers=[dict(name="sweep", args=["decode-sweep", "--tier", "{tier}", "--forms", "{forms}", "--out", "{out}", "--threads", "{threads}", "--seed", "{seed}"])],
                mc=[dict(module="MC_Decode.tla", cfg="MC_Decode.cfg", cfg_q="MC_Decode_q.cfg", workers=14, timeout=3000)], exhaustive=True,
                rule="ALL 65,536 first instruction words (x2 register files / placements), every multi-word prefix (0100, 0140, 01F0, 01C0, 01D0, 78r0, 7Cr0-7Faa, 6A/6B abs24, 58c0, 7B5C/7BD4) x second words (table patterns, their single-bit neighbours, random; all 65,536 for the main prefixes in thorough) and third words for the 78r0 chains; outcome class, consumed length and full post state compared with the independent decode table", assumptions=COMMON_ASSUME),
    "C14": dict(drivers=[dict(name="mes", args=["mes-cases", "--tier", "{tier}", "--out", "{out}", "--seed", "{seed}"]),
                         dict(name="handler", module="TraceRun.tla", args=["handler-cases", "--tier", "{tier}", "--out", "{out}", "--seed", "{seed}"])], mc=[dict(module="MC_Step.tla", cfg="MC_Step_C14.cfg", workers=14)],
                rule="TRAPA #0: write with buffers in on-chip RAM and DRAM, lengths 0-4096 (boundary + random), valid UTF-8 contents incl. NUL, newline, backslash, 2/3/4-byte sequences; console bytes captured by redirecting fd 1 around the step, messages through the capture hook; set_handler for ALL vector numbers 0-255 (+ large values) x handler addresses; set_handler HISTORIES on one Cpu (install, deliver, replace, deliver again, second vector, both delivered) through the real TRAPA #0 / request / try_interrupt / RTE path; all other call numbers 0-255 + aliases + random", assumptions=COMMON_ASSUME),
    "C15": dict(profiles=["release", "relchk"],
                drivers=[dict(name="mes_release", profile="release", args=["mes-cases", "--tier", "{tier}", "--out", "{out}", "--seed", "{seed}", "--adversarial", "1"]),
                         dict(name="mes_relchk", profile="relchk", args=["mes-cases", "--tier", "{tier}", "--out", "{out}", "--seed", "{seed}", "--adversarial", "1"]),
                         dict(name="run_release", profile="release", module="TraceRun.tla", args=["run-program", "--tier", "{tier}", "--out", "{out}", "--seed", "{seed}", "--set", "c15"]),
                         dict(name="run_relchk", profile="relchk", module="TraceRun.tla", args=["run-program", "--tier", "{tier}", "--out", "{out}", "--seed", "{seed}", "--set", "c15"]),
                         dict(name="lines_release", profile="release", module="TraceRun.tla", args=["sock-replay", "--tier", "{tier}", "--out", "{out}", "--threads", "{threads}", "--seed", "{seed}", "--fuzz", "1"]),
                         dict(name="lines_relchk", profile="relchk", module="TraceRun.tla", args=["sock-replay", "--tier", "{tier}", "--out", "{out}", "--threads", "{threads}", "--seed", "{seed}", "--fuzz", "1"]),
                         dict(name="sweep_release", profile="release", args=["panic-sweep", "--tier", "{tier}", "--forms", "{forms}", "--out", "{out}", "--threads", "{threads}", "--seed", "{seed}"]),
                         dict(name="sweep_relchk", profile="relchk", args=["panic-sweep", "--tier", "{tier}", "--forms", "{forms}", "--out", "{out}", "--threads", "{threads}", "--seed", "{seed}"])],
                mc=[dict(module="MC_Decode.tla", cfg="MC_Decode.cfg", cfg_q="MC_Decode_q.cfg", workers=14, timeout=3000)],
                rule="all first words + multi-word prefixes x adversarial register files (0,1,2,3,FFFFFFFF,region edges +-4, odd values, 00FFFFFF, 01000000) x CCR 00/FF x 4 bus-controller settings x PC in every mapped region incl. its last 2/4/6 bytes and at unmapped addresses, in BOTH build profiles (release; release+overflow-checks+debug-assertions); the spec's outcome alphabet is {ok, err}: a recorded panic matches no action", assumptions=COMMON_ASSUME),
    "C19": dict(drivers=[dict(name="cost", args=["cost-table", "--out", "{out}", "--seed", "{seed}"])], mc=[dict(module="MC_Cost.tla", cfg="MC_Cost.cfg", workers=14)], exhaustive=True,
                rule="exhaustive per-area setting space (8-/16-bit x 2-/3-state x 4 wait values x all 8 DRAM selects, DRAM space per the manual's DRAS table) x 6 cycle kinds x counts 1-5 x both ends + interior of all 8 areas + on-chip RAM ends, the OTHER areas' bits filled all-0 / all-1 / two random ways; on-chip I/O register addresses excluded; each evaluation of the real calc_state / calc_state_with_addr is one event validated against H8Cost.CycleCost", assumptions=COMMON_ASSUME),
    "C09": dict(drivers=[dict(name="scan", module="TraceBus.tla", args=["bus-scan", "--out", "{out}", "--seed", "{seed}"]),
                         dict(name="hist", module="TraceBus.tla", args=["bus-history", "--tier", "{tier}", "--out", "{out}", "--threads", "{threads}", "--seed", "{seed}"]),
                         step_cases("C09", name="wl")],
                mc=[dict(module="MC_Bus.tla", cfg="MC_Bus_t.cfg", cfg_q="MC_Bus.cfg", workers=14)], exhaustive=True,
                rule="(a) Bus::read on ALL 2^24 addresses + 6,000 samples at/above 2^24, observed as maximal intervals of equal outcome, must EQUAL the spec's region list; write-tag/read-back of every address with two different tag functions (no aliasing, failed writes change nothing); (b) seeded interleaved histories of byte writes/reads at region edges +-4, holes, seams, above 2^24, each with whole-bus diff, threaded through the spec's memory; (c) word/long accesses through MOV instructions at region edges (big-endian composition)", assumptions=COMMON_ASSUME),
    "C16": dict(gen=[dict(name="port1", module="MC_Port.tla", cfg="Gen_Port_t.cfg", cfg_q="Gen_Port_q.cfg"),
                     dict(name="port2", module="MC_Port.tla", cfg="Gen_Port2_t.cfg", cfg_q="Gen_Port2_q.cfg")],
                mc=[dict(module="MC_Port.tla", cfg="MC_Port2.cfg")],
                drivers=[dict(name="p1", module="TraceBus.tla", args=["port-replay", "--tier", "{tier}", "--in", "{port1}", "--out", "{out}", "--threads", "{threads}", "--seed", "{seed}"]),
                         dict(name="p2", module="TraceBus.tla", args=["port-replay", "--tier", "{tier}", "--in", "{port2}", "--out", "{out}", "--threads", "{threads}", "--seed", "{seed}"])],
                count_traces="histories",
                rule="TLC enumerates EVERY history of {write DDR, write DR, external input} x 4 values to depth 5 on one port (248,832; thorough depth 6 x 3 values) and every two-port interleaving to depth 3 (4 in thorough); each is replayed into the real Bus (slots mapped over all 11 ports and port pairs), plus seeded random length-20..60 histories with arbitrary bytes and invalid port numbers; per event: DR read-back, announcement rule, time stamps, all other ports and all other memory unchanged", assumptions=COMMON_ASSUME),
    "C17": dict(lemmas=[dict(module="TimerLemma.tla", runs=[[c, i, v, l] for c in ("--cinit=ConstInit8", "--cinit=ConstInit64", "--cinit=ConstInit8192")
                                                             for (i, v, l) in (("--init=Init", "--inv=IndInv", "--length=0"), ("--init=IndInit", "--inv=IndInv", "--length=1"), ("--init=IndInit", "--inv=Floor", "--length=0"))])],
                mc=[dict(module="MC_Timer.tla", cfg="MC_Timer.cfg", cfg_q="MC_Timer_q.cfg", workers=14, timeout=1800), dict(module="MC_System.tla", cfg="MC_System.cfg", workers=6)], drivers=[dict(name="timer", module="TraceBus.tla", args=["timer-replay", "--tier", "{tier}", "--out", "{out}", "--threads", "{threads}", "--seed", "{seed}"])],
                count_traces="histories",
                rule="seeded histories: all 256 TCR values, TCORA/TCORB/TCNT start values (boundary + random; the property's exclusions respected, violated now and then = 'open' class), charges from {1,2,3,7,8,9,15,16,17,63,64,65,100,128,200,255} + random 1..255, interleaved CPU writes to TCR (clock change / same clock), TCNT, TCORx, TCSR; the set of prescaler phases consistent with the observations is tracked by the spec, an observation no phase explains is a violation", assumptions=COMMON_ASSUME),
    "C11": dict(tv_timeout=3600, mc=[dict(module="MC_Loader.tla", cfg="MC_Loader.cfg", workers=14)], drivers=[dict(name="elf", module="TraceElf.tla", args=["elf-load", "--tier", "{tier}", "--out", "{out}", "--threads", "{threads}", "--seed", "{seed}"])],
                rule="generated ELF32-BE files: 1-4 ascending non-overlapping PT_LOADs (gaps 0.., adjacent, filesz 0..512 / 64 KiB in thorough, bss tails), 0-2 non-load headers at any position, shuffled file offsets and section order, .got of 0-16 (64) entries anywhere in a segment incl. its bss tail, unaligned / partial sizes, entry values incl. 0 and sums carrying into the top byte; the real elf::load is run on each file; the COMPLETE non-zero DRAM contents and any change outside DRAM are compared with the image recomputed by TLC from the abstract description", assumptions=COMMON_ASSUME + ["the harness's ELF writer encodes the abstract description correctly (the loader's own parser reads it back; cross-checked with readelf in the self-test)"]),
    "C12": dict(tv_timeout=3600, mc=[dict(module="MC_Loader.tla", cfg="MC_Loader.cfg", workers=14)], drivers=[dict(name="elf", module="TraceElf.tla", args=["elf-load", "--tier", "{tier}", "--out", "{out}", "--threads", "{threads}", "--seed", "{seed}"])],
                rule="as C11, with .stack sizes {0,1,3,4,5,0x400,0xFFFF,0x10000,random}, symbol tables of 1-24 (200) symbols with ___exit first / last / anywhere and near-miss names, argument strings of 0-10 (32) words with runs of blanks/tabs, leading/trailing white space, words up to 60 (200) bytes; ER0/1/2/5/7, exit address, argv table and strings, layout predicates", assumptions=COMMON_ASSUME),
    "C10": dict(lemmas=[dict(module="IntcLemma.tla", runs=[["--cinit=ConstInit", "--init=Init", "--inv=IndInv", "--length=0"],
                                                            ["--cinit=ConstInit", "--init=IndInit", "--inv=IndInv", "--length=1"]])],
                gen=[dict(name="sched", module="MC_Intc.tla", cfg="Gen_Irq_t.cfg", cfg_q="Gen_Irq_q.cfg")],
                mc=[dict(module="MC_Intc.tla", cfg="MC_Intc.cfg"), dict(module="MC_System.tla", cfg="MC_System.cfg", workers=6), dict(module="MC_System.tla", cfg="MC_System_live.cfg", workers=1)],
                drivers=[dict(name="irq", module="TraceRun.tla", args=["irq-replay", "--tier", "{tier}", "--in", "{sched}", "--out", "{out}", "--threads", "{threads}", "--seed", "{seed}"])],
                count_traces="histories",
                rule="TLC enumerates EVERY placement of <= 3 (4) requests over 3 vector slots among 9 (12) instruction boundaries; each schedule is replayed on a real guest program (counted arithmetic loop; handlers push, log their vector number, pop, RTE; some handlers TRAPA into nested trap handlers; slots mapped over all vectors 1-63; code / stack / data in on-chip RAM and DRAM; runs that start masked), stepping loop = try_interrupt + fetch/exec; every boundary (acc) and every instruction (step) is validated against the spec, pending multiset tracked, final 'end' (nothing pending, entered = requested per vector) and 'cmp' against the interrupt-free run of the same program; plus seeded random longer schedules", assumptions=COMMON_ASSUME),
    "C13": dict(lemmas=[dict(module="RunLemma.tla", runs=[["--cinit=ConstInit", "--init=Init", "--inv=IndInv", "--length=0"],
                                                           ["--cinit=ConstInit", "--init=IndInit", "--inv=IndInv", "--length=1"]])],
                mc=[dict(module="MC_Run.tla", cfg="MC_Run.cfg", workers=8), dict(module="MC_Run.tla", cfg="MC_Run_live.cfg", workers=1),
                    dict(module="MC_System.tla", cfg="MC_System.cfg", workers=6), dict(module="MC_System.tla", cfg="MC_System_live.cfg", workers=1)], drivers=[dict(name="run", module="TraceRun.tla", args=["run-program", "--tier", "{tier}", "--out", "{out}", "--seed", "{seed}"]),
                                                                  dict(name="examples", module="TraceRun.tla", args=["example-run", "--tier", "{tier}", "--out", "{out}", "--repo", "{repo}"])],
                count_traces="runs", tv_timeout=2400,
                rule="guest programs laid out as ELF files, loaded by the real elf::load and executed by the REAL Cpu::run in-process: port set-up + loop + calls + write system calls with awkward bytes; five programs ending in an instruction that must be rejected (ret err); counted loops; timer + set_handler + interrupt + port scenario; a long loop crossing the first sync threshold (three thresholds in thorough); a counted loop selected so that the jump reaching the exit address is the instruction that crosses the threshold. One event per run-loop iteration (registers, whole-memory diff, charged states, state_sum, pending queue, messages, console); TLC executes the same program with the spec (long runs: accounting / sync / timer / continuity projection). Each program is run 5 times (2 of them under 24 busy host threads) and the run summaries (final state, state count, iteration count, hashes of the per-iteration (pc, charge) sequence and of the message sequence) must be equal", assumptions=COMMON_ASSUME),
    "C18": dict(gen=[dict(name="sched", module="MC_Sock.tla", cfg="Gen_Sock_t.cfg", cfg_q="Gen_Sock_q.cfg")],
                mc=[dict(module="MC_Sock.tla", cfg="MC_Sock.cfg")],
                drivers=[dict(name="sock", module="TraceRun.tla", args=["sock-replay", "--tier", "{tier}", "--in", "{sched}", "--out", "{out}", "--threads", "{threads}", "--seed", "{seed}"]),
                         dict(name="tcpin", module="TraceRun.tla", args=["tcp-lines", "--tier", "{tier}", "--out", "{out}", "--seed", "{seed}"]),
                         dict(name="tcp", module="TraceRun.tla", args=["tcp-frame", "--tier", "{tier}", "--out", "{out}", "--seed", "{seed}"])],
                count_traces="histories", tv_timeout=2400,
                rule="TLC enumerates EVERY sequence of 3 (4) lines over {pause, start, stop, two port stores, malformed cmd, malformed u8/ioport} x EVERY partition into polling batches; each is fed to the real Cpu::run through a channel-backed Socket, the on_poll hook enqueueing exactly the scheduled batch before pop_messages; plus seeded random schedules with batches of more than 16 lines, upper-case hex, unknown / empty lines, pins on valid and invalid ports, stores to RAM; per poll: effects of the lines in order (memory diff, announcements consumed from the message stream one by one, port read-backs), pause / start / stop state; iterations must not occur while paused or after stop; per run: the sequence handed to the socket's outgoing channel equals the emitted sequence (count + order-sensitive digest); real-TCP incoming lines incl. white-space-only lines; framing: MC_Sock round trip, TCP stream event", assumptions=COMMON_ASSUME),
}
