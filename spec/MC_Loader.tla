------------------------------- MODULE MC_Loader -------------------------------
(***************************************************************************)
(* Design-level checks of H8Loader (properties C11, C12) over a grid of    *)
(* small abstract ELF descriptions: the constructive definitions (Env,     *)
(* ExpByte, RelocByte) against DECLARATIVE readings of the properties:     *)
(*  C11  every file byte of every PT_LOAD segment outside .got is present  *)
(*       unchanged, uncovered image bytes are zero, every .got entry is    *)
(*       its file value + load base (mod 2^32, big-endian, carries across  *)
(*       bytes), nothing else differs from the file;                       *)
(*  C12  regions image < stack < TCB < argument block, disjoint, in DRAM;  *)
(*       SP alignment; argc = 1 + number of blank->non-blank transitions;  *)
(*       argv[i] are in-block pointers to NUL-terminated byte-exact copies *)
(*       that do not overlap each other or the pointer table; the pointer  *)
(*       table ends with a null pointer.                                   *)
(***************************************************************************)
EXTENDS H8Loader
VARIABLE c

FileByte(k, i) == IF i % 5 = 3 THEN 255 ELSE (k * 37 + i * 11 + 1) % 256      \* many H'FF bytes: GOT carries
MkSeg(k, n) == [i \in 1..n |-> FileByte(k, i)]
(* segment layouts: sequences of <<type, vaddr, filesz, memsz>> *)
Layouts == <<
  << <<1, 0, 12, 12>> >>,
  << <<1, 0, 10, 19>> >>,                                         \* .bss tail, unaligned end
  << <<1, 0, 8, 8>>, <<1, 16, 6, 9>> >>,                          \* gap between segments
  << <<6, 0, 4, 4>>, <<1, 4, 9, 9>>, <<1, 32, 0, 7>> >>,          \* non-load header first, pure-bss segment last
  << <<1, 24, 8, 8>>, <<1, 0, 16, 16>> >>                         \* highest extent is NOT the last header
>>
MkElf(li, gotAt, gotSz, stack, args) ==
  LET L == Layouts[li]
  IN [ph |-> [i \in 1..Len(L) |-> <<L[i][1], 52 + 64 * i, L[i][2], L[i][2], L[i][3], L[i][4]>>],
      seg |-> [i \in 1..Len(L) |-> MkSeg(i, L[i][3])],
      sh |-> (IF gotSz >= 0 THEN << <<N_got, gotAt, 0, gotSz, 0, 4>> >> ELSE <<>>) \o << <<N_stack, stack, 0, 0, 0, 0>> >>,
      sym |-> << <<N_exit, <<0, 8>>>> >>, args |-> args]
ArgSet == {<<>>, <<97>>, <<32, 97, 32, 32, 98, 99, 32>>, <<9, 97, 32, 98, 9>>, <<120, 32, 121, 32, 122>>, <<32, 32>>, <<97, 98, 99, 100, 101, 102, 103>>}

Half(f(_), a) == f(a) * 256 + f(a + 1)

LoaderCase(li, gotAt, gotSz, stack, args) ==
  LET e == MkElf(li, gotAt, gotSz, stack, args)
      v == Env(e)
      img(a) == ImageByte(e, a)
      got(a) == ExpByte(e, v, a)
      g == GotRange(e)
      imgEnd == Base + ImageEnd(e)
      nwords == Cardinality({i \in 1..Len(args) : ~IsBlank(args[i]) /\ (i = 1 \/ IsBlank(args[i - 1]))})
      blk(a) == v.block[a - v.argv + 1]                       \* a byte of the argument block by guest address
      ptr(i) == Half(blk, v.argv + 4 * i) * P16 + Half(blk, v.argv + 4 * i + 2)      \* argv[i], i from 0
      strlen(a) == CHOOSE n \in 0..Len(v.block) : blk(a + n) = 0 /\ \A k \in 0..(n - 1) : blk(a + k) # 0
      words == ArgWords(args)
  IN (* ---- C11 *)
     /\ \A a \in Base..(imgEnd + 3) :
          IF a >= g[1] /\ a <= g[2]
          THEN LET w == g[1] + 4 * ((a - g[1]) \div 4)
                   lo == Half(img, w + 2) + 26880                              \* + low half of the base H'00416900
                   hi == Half(img, w) + 65 + lo \div P16
               IN Half(got, w + 2) = lo % P16 /\ Half(got, w) = hi % P16        \* relocated exactly once
          ELSE got(a) = img(a)
     /\ \A i \in 1..Len(e.ph) : IsLoad(e.ph[i]) =>
          \A k \in 1..e.ph[i][5] :
             LET a == Base + e.ph[i][3] + k - 1
             IN (\A j \in 1..Len(e.ph) : j # i /\ IsLoad(e.ph[j]) => ~(a >= Base + e.ph[j][3] /\ a < Base + e.ph[j][3] + e.ph[j][5]))
                => img(a) = e.seg[i][k]
     /\ \A a \in Base..(imgEnd + 3) : SegsAt(e, a) = {} => img(a) = 0
     (* ---- C12 *)
     /\ LayoutOK(e, v)
     /\ v.imageEnd = imgEnd /\ \A i \in 1..Len(e.ph) : IsLoad(e.ph[i]) => Base + e.ph[i][3] + e.ph[i][6] <= imgEnd
     /\ imgEnd + stack <= v.stackEnd /\ v.stackEnd <= v.tcb /\ v.tcb + 88 <= v.argv /\ v.argv < v.blockEnd
     /\ v.blockEnd - 1 <= DramHi /\ Base >= DramLo
     /\ v.argc = 1 + nwords
     /\ ptr(v.argc) = 0
     /\ \A i \in 0..(v.argc - 1) :
          /\ ptr(i) >= v.argv + 4 * (v.argc + 1) /\ ptr(i) < v.blockEnd
          /\ LET str == [k \in 1..strlen(ptr(i)) |-> blk(ptr(i) + k - 1)]
             IN str = (IF i = 0 THEN ProgName ELSE words[i])
          /\ ptr(i) + strlen(ptr(i)) < v.blockEnd
          /\ \A j \in 0..(v.argc - 1) : j > i => ptr(j) > ptr(i) + strlen(ptr(i))          \* copies do not overlap
     /\ \A i \in 1..Len(words) : Len(words[i]) > 0 /\ \A k \in 1..Len(words[i]) : ~IsBlank(words[i][k])

Init == c \in {<<"seed", li, stack>> : li \in 1..Len(Layouts), stack \in {0, 1, 2, 3, 4, 7, 256, 4096}}
Next == c[1] = "seed" /\ c' \in {<<"case", c[2], gotAt, gotSz, c[3], args>> : gotAt \in {0, 4, 8}, gotSz \in {-1, 0, 4, 8, 10}, args \in ArgSet}
Spec == Init /\ [][Next]_c
Inv == c[1] = "seed" \/ LoaderCase(c[2], c[3], c[4], c[5], c[6])
=============================================================================
