SPECIFICATION Spec
CONSTANTS
  Slots = {1, 2, 3}
  MaxReq = 4
  Depth = 12
  Emit = TRUE
  K = 4
  HLen = 3
CONSTRAINT Bound
INVARIANT EmitInv
CHECK_DEADLOCK FALSE
