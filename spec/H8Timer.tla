------------------------------- MODULE H8Timer -------------------------------
(***************************************************************************)
(* 8-bit timer channel 0 (property C17).                                   *)
(*                                                                         *)
(* Reference semantics = one COUNT at a time (CountOnce); an elapsed time  *)
(* of n states at divisor d with prescaler residue r produces              *)
(* floor((r + n) / d) counts and leaves residue (r + n) mod d - this is    *)
(* "E states after the clock was selected the counter has counted          *)
(* floor((E + p) / d) times" with r = (E + p) mod d.                       *)
(*                                                                         *)
(* The phase p is not observable, so the trace state carries the SET of    *)
(* residues still consistent with everything observed since the clock was  *)
(* selected, as a set of disjoint intervals of 0..d-1.  A tick whose       *)
(* observation is explained by no feasible residue is a violation ("a tick *)
(* was lost, gained or bunched").  No internal variable of the             *)
(* implementation is read.                                                 *)
(***************************************************************************)
EXTENDS H8Map

DivisorOf(tcr) == CASE tcr % 8 = 0 -> 0 [] tcr % 8 = 1 -> 8 [] tcr % 8 = 2 -> 64 [] tcr % 8 = 3 -> 8192 [] OTHER -> -1
CclrOf(tcr) == (tcr \div 8) % 4            \* 0 none, 1 compare match A, 2 compare match B, 3 external (no compare clear)
CMIEB(tcr) == Bit(tcr, 7)  CMIEA(tcr) == Bit(tcr, 6)  OVIE(tcr) == Bit(tcr, 5)

(* one count. st = [tcnt, tcsr, ra, rb, ro] (ra/rb/ro = requests raised for vectors 36/37/39) *)
CountOnce(st, tcr, tcora, tcorb) ==
  LET c    == (st.tcnt + 1) % 256
      ovf  == st.tcnt = 255
      ma   == c = tcora
      mb   == c = tcorb
      clr  == (CclrOf(tcr) = 1 /\ ma) \/ (CclrOf(tcr) = 2 /\ mb)
      f1   == IF ma /\ Bit(st.tcsr, 6) = 0 THEN st.tcsr + 64 ELSE st.tcsr
      f2   == IF mb /\ Bit(f1, 7) = 0 THEN f1 + 128 ELSE f1
      f3   == IF ovf /\ Bit(f2, 5) = 0 THEN f2 + 32 ELSE f2
  IN [tcnt |-> IF clr THEN 0 ELSE c, tcsr |-> f3,
      ra |-> st.ra + (IF ma /\ CMIEA(tcr) = 1 THEN 1 ELSE 0),
      rb |-> st.rb + (IF mb /\ CMIEB(tcr) = 1 THEN 1 ELSE 0),
      ro |-> st.ro + (IF ovf /\ OVIE(tcr) = 1 THEN 1 ELSE 0)]
RECURSIVE CountN(_, _, _, _, _)
CountN(st, k, tcr, tcora, tcorb) == IF k = 0 THEN st ELSE CountN(CountOnce(st, tcr, tcora, tcorb), k - 1, tcr, tcora, tcorb)

(* configurations the hardware manual leaves open (excluded by the property's quantifier) *)
OpenConfig(tcr, tcora, tcorb) == CclrOf(tcr) \in {1, 2} /\ (tcora = tcorb \/ tcora = 0 \/ tcorb = 0)

(* ---- interval sets over 0..d-1 ------------------------------------------- *)
Full(d) == IF d > 0 THEN {<<0, d - 1>>} ELSE {}
Clip(I, lo, hi) == {<<Max2(i[1], lo), Min2(i[2], hi)>> : i \in {j \in I : j[1] <= hi /\ j[2] >= lo}}
Shift(I, k) == {<<i[1] + k, i[2] + k>> : i \in I}
(* residues r with floor((r + n) / d) = q + 1, resp. = q, and their successors (r + n) mod d, n = q d + m *)
ResHi(R, d, m) == IF m = 0 THEN {} ELSE Shift(Clip(R, d - m, d - 1), m - d)
ResLo(R, d, m) == Shift(Clip(R, 0, d - m - 1), m)

(* ---- trace state ----------------------------------------------------------- *)
(* d: divisor in force (0 stopped, -1 outside the property: CKS 4-7), R: feasible residues *)
TimerTraceInit == [d |-> 0, R |-> {}]
TimerWrite(tm, a, v, mem) ==
  IF a # TCR0 THEN tm
  ELSE LET nd == DivisorOf(v)
       IN IF nd = tm.d THEN tm ELSE [d |-> nd, R |-> Full(nd)]

CountReq(req, v) == Cardinality({i \in 1..Len(req) : req[i] = v})

(* tick event e = [n, tcnt, tcsr, req, wr]; mem = memory before the tick *)
TimerTick(tm, e, mem) ==
  LET tcr   == Rd(mem, TCR0)
      tcora == Rd(mem, TCORA0)
      tcorb == Rd(mem, TCORB0)
      st0   == [tcnt |-> Rd(mem, TCNT0), tcsr |-> Rd(mem, TCSR0), ra |-> 0, rb |-> 0, ro |-> 0]
      newmem == WrAll(mem, << <<TCNT0, e.tcnt>>, <<TCSR0, e.tcsr>> >>)
      obs(st) == st.tcnt = e.tcnt /\ st.tcsr = e.tcsr /\ st.ra = CountReq(e.req, 36) /\ st.rb = CountReq(e.req, 37)
                 /\ st.ro = CountReq(e.req, 39) /\ Len(e.req) = st.ra + st.rb + st.ro
      onlyTimer == \A i \in 1..Len(e.wr) : e.wr[i][1] \in {TCNT0, TCSR0}
      d     == tm.d
  IN IF d = -1 \/ OpenConfig(tcr, tcora, tcorb) THEN
       [ok |-> TRUE, dev |-> "", why |-> "", tm |-> IF d > 0 THEN [tm EXCEPT !.R = Full(d)] ELSE tm, bm |-> newmem, cls |-> "open"]
     ELSE IF d = 0 THEN
       [ok |-> obs(st0) /\ e.wr = <<>>, dev |-> "", why |-> "counted while no clock is selected", tm |-> tm, bm |-> newmem, cls |-> "stopped"]
     ELSE
       LET q  == e.n \div d
           m  == e.n % d
           sq  == CountN(st0, q, tcr, tcora, tcorb)
           sq1 == CountOnce(sq, tcr, tcora, tcorb)
           Rlo == IF obs(sq) THEN ResLo(tm.R, d, m) ELSE {}
           Rhi == IF obs(sq1) THEN ResHi(tm.R, d, m) ELSE {}
           R2  == Rlo \cup Rhi
       IN [ok |-> R2 # {} /\ onlyTimer, dev |-> "", why |-> "no phase explains this tick (lost, gained or bunched count, or wrong flags/requests)",
           tm |-> [tm EXCEPT !.R = IF R2 # {} THEN R2 ELSE Full(d)], bm |-> newmem, cls |-> IF q > 0 \/ obs(sq1) THEN "counting" ELSE "sub-period"]
=============================================================================
