SPECIFICATION Spec
CONSTANTS
  Kinds = {1, 2, 3, 4, 5, 7, 8}
  MaxLen = 5
  Emit = FALSE
  Alphabet = {92, 10, 110, 97, 195}
  MaxMsg = 4
INVARIANT InvExactlyOnce
INVARIANT InvStop
CHECK_DEADLOCK FALSE
