------------------------------- MODULE H8Map -------------------------------
(***************************************************************************)
(* Guest address space of the emulated H8/3069F (property C09) and the     *)
(* sparse memory representation used by the specification.                 *)
(***************************************************************************)
EXTENDS H8Base

(* the five accessible intervals [lo, hi] *)
VecLo == 0            VecHi == 255
DramLo == 4194304     DramHi == 6291455        \* H'400000 - H'5FFFFF
Io1Lo == 16703488     Io1Hi == 16703743        \* H'FEE000 - H'FEE0FF
RamLo == 16760608     RamHi == 16776991        \* H'FFBF20 - H'FFFF1F
Io2Lo == 16776992     Io2Hi == 16777193        \* H'FFFF20 - H'FFFFE9

Regions == << [n |-> "vec",  lo |-> VecLo,  hi |-> VecHi],
              [n |-> "dram", lo |-> DramLo, hi |-> DramHi],
              [n |-> "io1",  lo |-> Io1Lo,  hi |-> Io1Hi],
              [n |-> "ram",  lo |-> RamLo,  hi |-> RamHi],
              [n |-> "io2",  lo |-> Io2Lo,  hi |-> Io2Hi] >>

InVec(a)  == a >= VecLo  /\ a <= VecHi
InDram(a) == a >= DramLo /\ a <= DramHi
InIo1(a)  == a >= Io1Lo  /\ a <= Io1Hi
InRam(a)  == a >= RamLo  /\ a <= RamHi
InIo2(a)  == a >= Io2Lo  /\ a <= Io2Hi
InIo(a)   == InIo1(a) \/ InIo2(a)

Accessible(a) == InVec(a) \/ InDram(a) \/ InIo1(a) \/ InRam(a) \/ InIo2(a)
RegionOf(a) == IF InVec(a) THEN "vec" ELSE IF InDram(a) THEN "dram" ELSE IF InIo1(a) THEN "io1"
               ELSE IF InRam(a) THEN "ram" ELSE IF InIo2(a) THEN "io2" ELSE "none"

(* peripheral register addresses *)
DdrLo == 16703488   DdrHi == 16703498          \* P1DDR..PBDDR  H'FEE000-H'FEE00A
DrLo  == 16777168   DrHi  == 16777178          \* P1DR..PBDR    H'FFFFD0-H'FFFFDA
IsDdr(a) == a >= DdrLo /\ a <= DdrHi
IsDr(a)  == a >= DrLo  /\ a <= DrHi
IsPortReg(a) == IsDdr(a) \/ IsDr(a)
ABWCR == 16703520  ASTCR == 16703521  WCRH == 16703522  WCRL == 16703523  DRCRA == 16703526
TCR0 == 16777088   TCSR0 == 16777090  TCORA0 == 16777092  TCORB0 == 16777094  TCNT0 == 16777096
IsTimerReg(a) == a \in {TCR0, TCSR0, TCORA0, TCORB0, TCNT0}
(* plain storage: a written byte is what later reads return (C09) *)
PlainStorage(a) == Accessible(a) /\ ~IsPortReg(a)

(***************************************************************************)
(* Background contents.  "zero" is the emulator's reset image; "tag" is an *)
(* address hash (the harness fills RAM / DRAM / vector area with the same  *)
(* function) so that WHICH location an instruction read is observable from *)
(* the value.  The I/O register files are never tagged.                    *)
(***************************************************************************)
Tag(a) == ((a % 256) * 167 + ((a \div 256) % 256) * 13 + (a \div 65536) * 7 + 90) % 256
BgVal(bg, a) == IF bg = "tag" /\ ~InIo(a) THEN Tag(a) ELSE 0

(***************************************************************************)
(* Memory = [bg, runs, ov] laid over the background:                       *)
(*   runs : sequence of <<start, <<b0, b1, ...>>>> - the explicit pokes of *)
(*          the harness as disjoint contiguous runs (static)               *)
(*   ov   : function from a finite set of addresses to bytes - the writes  *)
(*          performed so far (threaded executions); ov wins over runs      *)
(***************************************************************************)
RunVal(runs, a) ==
  LET S == {i \in 1..Len(runs) : a >= runs[i][1] /\ a < runs[i][1] + Len(runs[i][2])}
  IN IF S = {} THEN -1 ELSE LET i == CHOOSE j \in S : TRUE IN runs[i][2][a - runs[i][1] + 1]
Rd(mem, a) ==
  IF a \in DOMAIN mem.ov THEN mem.ov[a]
  ELSE LET v == RunVal(mem.runs, a) IN IF v >= 0 THEN v ELSE BgVal(mem.bg, a)
MemOf(bg, runs) == [bg |-> bg, runs |-> runs, ov |-> <<>>]
(* function from a sequence of <<addr, byte>> pairs; later pairs win *)
OvOf(pairs) ==
  LET n == Len(pairs)
      D == {pairs[i][1] : i \in 1..n}
      last(a) == CHOOSE i \in 1..n : pairs[i][1] = a /\ \A j \in (i + 1)..n : pairs[j][1] # a
  IN [a \in D |-> pairs[last(a)][2]]
(* apply a sequence of writes *)
WrAll(mem, pairs) ==
  LET o == OvOf(pairs)
  IN [mem EXCEPT !.ov = [a \in (DOMAIN mem.ov) \cup (DOMAIN o) |-> IF a \in DOMAIN o THEN o[a] ELSE mem.ov[a]]]

(* an access of n bytes at a is possible iff every byte is accessible *)
CanAccess(a, n) == \A i \in 0..(n - 1) : Accessible(a + i)

(* big-endian composition: V-value of the n bytes at a *)
RdV(mem, a, n) ==
  IF n = 1 THEN <<0, Rd(mem, a)>>
  ELSE IF n = 2 THEN <<0, Rd(mem, a) * 256 + Rd(mem, a + 1)>>
  ELSE <<Rd(mem, a) * 256 + Rd(mem, a + 1), Rd(mem, a + 2) * 256 + Rd(mem, a + 3)>>
(* the byte writes of a big-endian store, ascending addresses *)
WrSeq(a, n, v) ==
  IF n = 1 THEN << <<a, v[2] % 256>> >>
  ELSE IF n = 2 THEN << <<a, v[2] \div 256>>, <<a + 1, v[2] % 256>> >>
  ELSE << <<a, v[1] \div 256>>, <<a + 1, v[1] % 256>>, <<a + 2, v[2] \div 256>>, <<a + 3, v[2] % 256>> >>

(* the eight 2 MiB areas *)
AreaOf(a) == a \div 2097152
=============================================================================
