SPECIFICATION Spec
CONSTANTS
  Slots = {1}
  Vals = {0, 255, 165}
  Depth = 6
  Emit = TRUE
CONSTRAINT Bound
CHECK_DEADLOCK FALSE
INVARIANT EmitInv
