------------------------------- MODULE TraceRun -------------------------------
(***************************************************************************)
(* Trace validation of THREADED executions of the real CPU: the            *)
(* specification executes the same guest program, event by event.          *)
(*                                                                         *)
(*   load : (re)initialised machine - full register file, memory image     *)
(*   req  : a peripheral requests interrupt v                    (C10)     *)
(*   acc  : instruction boundary: the pending queue is consulted (C10,C06) *)
(*   step : one instruction (fetch + exec)                  (C01-C08, C05) *)
(*   end  : end of a stepped program: all requests must have been entered  *)
(*   cmp  : two projections that must be equal (hyper-property steps)      *)
(* Run-loop events (poll / it / ret, properties C13, C18, C10, C17) are    *)
(* handled by the second half of the module.                               *)
(***************************************************************************)
EXTENDS H8Obs, H8Intc, H8Port, H8Timer, H8Sock, Json, IOUtils, SequencesExt

Rec  == ndJsonDeserialize(IOEnv.TRACE)
PROP == IOEnv.PROP
NRec == Len(Rec)
INTERVAL == 2000000            \* sync message interval in states

VARIABLES l, cov,
          s,        \* machine state [er, ccr, pc, mem]
          pend,     \* pending interrupt requests (sequence)
          req, ent, \* ghost counters [vector -> number requested / entered] since the last load
          sum,      \* cumulative state count <<millions, units>>
          ports, odr,   \* port records (intended) and last observed DR bytes
          tm,       \* timer trace state
          paused, stopped, exitaddr, dirty
vars == <<l, cov, s, pend, req, ent, sum, ports, odr, tm, paused, stopped, exitaddr, dirty>>
runvars == <<sum, ports, odr, tm, paused, stopped, exitaddr, dirty>>

Zero64 == [v \in 0..255 |-> 0]
Rep(kind, e, what, extra) ==
  PrintT(kind \o " " \o ToJson([id |-> e.id, prop |-> PROP, row |-> what, exp |-> "ok", got |-> IF "res" \in DOMAIN e THEN e.res ELSE "-",
                                fields |-> extra, dev |-> IF kind = "DEVIATION" THEN extra[1] ELSE ""]))

StateOfLoad(e) == [er |-> ErOf(e.pre), ccr |-> CcrOf(e.pre), pc |-> PcOf(e.pre), mem |-> MemOf(e.bg, e.pk)]
PostState(e, mem2) == [er |-> ErOf(e.post), ccr |-> CcrOf(e.post), pc |-> PcOf(e.post), mem |-> mem2]

LoadEvent(e) ==
  /\ s' = StateOfLoad(e)
  /\ pend' = e.pend
  /\ req' = [v \in 0..255 |-> Cardinality({i \in 1..Len(e.pend) : e.pend[i] = v})]
  /\ ent' = Zero64
  /\ sum' = <<0, 0>> /\ ports' = [k \in Ports |-> PortInit] /\ odr' = [k \in Ports |-> 0]
  /\ tm' = TimerTraceInit /\ paused' = FALSE /\ stopped' = FALSE /\ dirty' = {}
  /\ exitaddr' = IF "exit" \in DOMAIN e THEN e.exit[1] * P16 + e.exit[2] ELSE -1
  /\ UNCHANGED cov

ReqEvent(e) ==
  /\ pend' = Request(pend, e.v)
  /\ req' = [req EXCEPT ![e.v] = @ + 1]
  /\ UNCHANGED <<cov, s, ent, runvars>>

(* the logged queue must be the spec's multiset of pending requests *)
SameBag(a, b) == Len(a) = Len(b) /\ \A v \in 0..255 : Cardinality({i \in 1..Len(a) : a[i] = v}) = Cardinality({i \in 1..Len(b) : b[i] = v})

(* instruction boundary: e.entered = vector entered, 0 = none *)
AccEvent(e) ==
  IF e.entered = 0 THEN
    (* not accepting is always allowed at a single boundary (C10 is an eventuality; see `end`) *)
    /\ IF e.res = "ok" /\ ErOf(e.post) = s.er /\ CcrOf(e.post) = s.ccr /\ PcOf(e.post) = s.pc /\ e.wr = <<>> /\ SameBag(e.pend, pend) THEN TRUE
       ELSE Rep("MISMATCH", e, "boundary without acceptance", <<"state changed">>)
    /\ cov' = cov \cup {<<"acc", IF Len(pend) = 0 THEN "idle" ELSE IF IFlag(s) = 1 THEN "masked" ELSE "deferred">>}
    /\ UNCHANGED <<s, pend, req, ent, runvars>>
  ELSE
    LET v  == e.entered
        x  == AcceptF(s, v)
        ok == /\ CanAccept(s, pend, v)                       \* pending, and the I bit is clear
              /\ (x.res = "ok" => e.res = "ok" /\ PostOK(e, s, x))
              /\ (x.res = "err" => e.res = "err")
              /\ SameBag(e.pend, RemoveOne(pend, v))
        why == IF ~IsPending(pend, v) THEN "entered a vector that was not requested"
               ELSE IF IFlag(s) = 1 THEN "accepted while CCR.I is set" ELSE "entry frame / vector / state"
    IN /\ IF ok THEN TRUE ELSE Rep("MISMATCH", e, "interrupt acceptance", <<why>>)
       /\ s' = PostState(e, WrAll(s.mem, e.wr))
       /\ pend' = e.pend
       /\ ent' = [ent EXCEPT ![v] = @ + 1]
       /\ cov' = cov \cup {<<"acc", "entered">>}
       /\ UNCHANGED <<req, runvars>>

StepOK(e, x) ==
  IF x.pw THEN e.res # "panic"
  ELSE IF x.res = "ok" THEN e.res = "ok" /\ PostOK(e, s, x) /\ (PROP \in {"C20", "ALL"} /\ x.cyc >= 0 => e.st = x.cyc)
  ELSE IF x.res = "err" THEN e.res # "ok"
  ELSE e.res # "panic"

StepEvent(e) ==
  LET x == StepF(s)
      ok == StepOK(e, x)
      dev == IF ok THEN "" ELSE DevName([e EXCEPT !.res = e.res] @@ [con |-> <<>>, msgs |-> <<>>], s, x, PROP)
  IN /\ IF ok THEN TRUE
        ELSE IF dev # "" THEN Rep("DEVIATION", e, RowName2(x), <<dev>>)
        ELSE Rep("MISMATCH", e, RowName2(x), Diffs2(e, s, x))
     /\ s' = PostState(e, WrAll(s.mem, e.wr))
     /\ cov' = cov \cup {<<"step", RowName2(x)>>}
     /\ UNCHANGED <<pend, req, ent, runvars>>

(* end of a stepped program whose tail ran with I = 0: nothing may be left pending, and every *)
(* request was entered exactly once through its own vector                                    *)
EndEvent(e) ==
  /\ IF Len(pend) = 0 /\ \A v \in 0..255 : ent[v] = req[v] THEN TRUE
     ELSE Rep("MISMATCH", e, "end of program", <<"requests lost or duplicated">>)
  /\ cov' = cov \cup {<<"end", "">>}
  /\ UNCHANGED <<s, pend, req, ent, runvars>>

CmpEvent(e) ==
  /\ IF e.a = e.b THEN TRUE ELSE Rep("MISMATCH", e, "cmp " \o e.what, <<"projections differ">>)
  /\ cov' = cov \cup {<<"cmp", e.what>>}
  /\ UNCHANGED <<s, pend, req, ent, runvars>>
=============================================================================
