------------------------------- MODULE TraceRun -------------------------------
(***************************************************************************)
(* Trace validation of THREADED executions of the real CPU: the            *)
(* specification executes the same guest program, event by event.          *)
(*                                                                         *)
(*   load : (re)initialised machine - full register file, memory image     *)
(*   vReq  : a peripheral requests interrupt v                    (C10)     *)
(*   acc  : instruction boundary: the pending queue is consulted (C10,C06) *)
(*   step : one instruction (fetch + exec)                  (C01-C08, C05) *)
(*   end  : end of a stepped program: all requests must have been entered  *)
(*   cmp  : two projections that must be equal (hyper-property steps)      *)
(* Run-loop events (poll / it / ret, properties C13, C18, C10, C17) are    *)
(* handled by the second half of the module.                               *)
(***************************************************************************)
EXTENDS H8Obs, H8Deviations, H8Intc, H8Port, H8Timer, H8Sock, Json, IOUtils, SequencesExt

Rec  == ndJsonDeserialize(IOEnv.TRACE)
PROP == IOEnv.PROP
NRec == Len(Rec)
INTERVAL == 2000000            \* sync message interval in states

VARIABLES l, cov,
          vS,        \* machine state [er, ccr, pc, ov, li]: ov = bytes written so far, li = index of the `load`
                    \* event whose image the history started from (TLC compares whole states whenever it
                    \* reuses a cached LET value, so the state must stay SMALL: the image itself is not in it)
          vPend,     \* pending interrupt requests (sequence)
          vReq, vEnt, \* ghost histories: vectors requested / entered since the last load (sequences)
          vSum,      \* cumulative state count <<millions, units>>
          vPorts, vOdr,   \* port records (intended) and last observed DR bytes
          vTm,       \* timer trace state
          vPaused, vStopped, vExit, vDirty
vars == <<l, cov, vS, vPend, vReq, vEnt, vSum, vPorts, vOdr, vTm, vPaused, vStopped, vExit, vDirty>>
runvars == <<vSum, vPorts, vOdr, vTm, vPaused, vStopped, vExit, vDirty>>

Zero64 == <<>>
(* the memory image of the current history and the full machine state handed to H8Exec *)
M(st) == [bg |-> Rec[st.li].bg, runs |-> Rec[st.li].pk, ov |-> st.ov]
SS(st) == [er |-> st.er, ccr |-> st.ccr, pc |-> st.pc, mem |-> M(st)]
CountIn(sq, v) == Cardinality({i \in 1..Len(sq) : sq[i] = v})
Rep(kind, e, what, extra) ==
  PrintT(kind \o " " \o ToJson([id |-> e.id, prop |-> PROP, row |-> what, exp |-> "ok", got |-> IF "res" \in DOMAIN e THEN e.res ELSE "-",
                                fields |-> extra, dev |-> IF kind = "DEVIATION" THEN extra[1] ELSE ""]))

StateOfLoad(e) == [er |-> ErOf(e.pre), ccr |-> CcrOf(e.pre), pc |-> PcOf(e.pre), ov |-> <<>>, li |-> l]
PostState(e, mem2) == [er |-> ErOf(e.post), ccr |-> CcrOf(e.post), pc |-> PcOf(e.post), ov |-> mem2.ov, li |-> vS.li]

LoadEvent(e) ==
  /\ vS' = StateOfLoad(e)
  /\ vPend' = e.pend
  /\ vReq' = e.pend
  /\ vEnt' = <<>>
  /\ vSum' = <<0, 0>> /\ vPorts' = [k \in Ports |-> PortInit] /\ vOdr' = [k \in Ports |-> 0]
  /\ vTm' = TimerTraceInit /\ vPaused' = FALSE /\ vStopped' = FALSE /\ vDirty' = {}
  /\ vExit' = IF "exit" \in DOMAIN e THEN e.exit[1] * P16 + e.exit[2] ELSE -1
  /\ UNCHANGED cov

ReqEvent(e) ==
  /\ vPend' = Request(vPend, e.v)
  /\ vReq' = Append(vReq, e.v)
  /\ UNCHANGED <<cov, vS, vEnt, runvars>>

(* the logged queue must be the spec'vS multiset of pending requests *)
SameBag(a, b) == Len(a) = Len(b) /\ \A v \in 0..255 : Cardinality({i \in 1..Len(a) : a[i] = v}) = Cardinality({i \in 1..Len(b) : b[i] = v})

(* instruction boundary: e.entered = vector entered, 0 = none *)
AccEvent(e) ==
  IF e.entered = 0 THEN
    (* not accepting is always allowed at a single boundary (C10 is an eventuality; see `end`) *)
    /\ IF e.res = "ok" /\ ErOf(e.post) = vS.er /\ CcrOf(e.post) = vS.ccr /\ PcOf(e.post) = vS.pc /\ e.wr = <<>> /\ SameBag(e.pend, vPend) THEN TRUE
       ELSE Rep("MISMATCH", e, "boundary without acceptance", <<"state changed">>)
    /\ cov' = cov \cup {<<"acc", IF Len(vPend) = 0 THEN "idle" ELSE IF IFlag(vS) = 1 THEN "masked" ELSE "deferred">>}
    /\ UNCHANGED <<vS, vPend, vReq, vEnt, runvars>>
  ELSE
    LET v  == e.entered
        x  == AcceptF(SS(vS), v)
        ok == /\ CanAccept(vS, vPend, v)                       \* pending, and the I bit is clear
              /\ (x.res = "ok" => e.res = "ok" /\ PostOK(e, SS(vS), x))
              /\ (x.res = "err" => e.res = "err")
              /\ SameBag(e.pend, RemoveOne(vPend, v))
        why == IF ~IsPending(vPend, v) THEN "entered a vector that was not requested"
               ELSE IF IFlag(vS) = 1 THEN "accepted while CCR.I is set" ELSE "entry frame / vector / state"
    IN /\ IF ok THEN TRUE ELSE Rep("MISMATCH", e, "interrupt acceptance", <<why>>)
       /\ vS' = PostState(e, WrAll(M(vS), e.wr))
       /\ vPend' = e.pend
       /\ vEnt' = Append(vEnt, v)
       /\ cov' = cov \cup {<<"acc", "entered">>}
       /\ UNCHANGED <<vReq, runvars>>

StepOK(e, x) ==
  IF x.pw THEN e.res # "panic"
  ELSE IF x.res = "ok" THEN e.res = "ok" /\ PostOK(e, SS(vS), x) /\ (PROP \in {"C20", "ALL"} /\ x.cyc >= 0 => e.st = x.cyc)
  ELSE IF x.res = "err" THEN e.res # "ok"
  ELSE e.res # "panic"

StepEvent(e) ==
  LET x == StepF(SS(vS))
      ok == StepOK(e, x)
      dev == IF ok THEN "" ELSE DevName(e, SS(vS), x, PROP)
  IN /\ IF ok THEN TRUE
        ELSE IF dev # "" THEN Rep("DEVIATION", e, RowName(x), <<dev>>)
        ELSE Rep("MISMATCH", e, RowName(x), Diffs(e, SS(vS), x))
     /\ vS' = PostState(e, WrAll(M(vS), e.wr))
     /\ cov' = cov \cup {<<"step", RowName(x)>>}
     /\ UNCHANGED <<vPend, vReq, vEnt, runvars>>

(* end of a stepped program whose tail ran with I = 0: nothing may be left pending, and every *)
(* request was entered exactly once through its own vector                                    *)
EndEvent(e) ==
  /\ IF Len(vPend) = 0 /\ \A v \in 0..255 : CountIn(vEnt, v) = CountIn(vReq, v) THEN TRUE
     ELSE Rep("MISMATCH", e, "end of program", <<"requests lost or duplicated">>)
  /\ cov' = cov \cup {<<"end", "">>}
  /\ UNCHANGED <<vS, vPend, vReq, vEnt, runvars>>

CmpEvent(e) ==
  /\ IF e.a = e.b THEN TRUE ELSE Rep("MISMATCH", e, "cmp " \o e.what, <<"projections differ">>)
  /\ cov' = cov \cup {<<"cmp", e.what>>}
  /\ UNCHANGED <<vS, vPend, vReq, vEnt, runvars>>

(***************************************************************************)
(* ======================  run loop (C13, C18, C10, C17)  ================ *)
(* One iteration of Cpu::run =  Poll . (vPaused ? skip : Accept? . Step .   *)
(* Account . Sync? . Tick . ExitTest).  The specification has NO wall      *)
(* clock: pacing is invisible by construction, which is the determinism    *)
(* claim of C13 - every run must be this one behaviour.                    *)
(***************************************************************************)
Mil == 1000000
SumAdd(a, n) == LET u == a[2] + n IN <<a[1] + (u \div Mil), u % Mil>>
SumInt(a) == a[1] * Mil + a[2]                    \* only used while it stays below 2^31
Pad6(u) == LET d == DecStr(u) IN [i \in 1..(6 - Len(d)) |-> 48] \o d
SumStr(a) == IF a[1] = 0 THEN DecStr(a[2]) ELSE DecStr(a[1]) \o Pad6(a[2])
SyncMsg(a) == <<115, 121, 110, 99, 58>> \o SumStr(a)          \* "sync:<total>"
IoportMsgS(n, v, a) == IoportPrefix \o HexStr(n) \o <<58>> \o HexStr(v) \o <<58>> \o SumStr(a)

(* ---- a sequence of byte stores through the bus (control lines, instruction writes), with the  *)
(* ---- announcements they must produce consumed from the observed message stream in order       *)
(* acc = [vPorts, mem, vTm, mi, ok]                                                                *)
StoreOne(acc, a, v, msgs, stamp) ==
  IF ~Accessible(a) THEN acc
  ELSE IF IsPortReg(a) THEN
    LET n == IF IsDdr(a) THEN a - DdrLo + 1 ELSE a - DrLo + 1
        p == acc.ports[n]
        q == IF IsDdr(a) THEN PWriteDDR(p, v) ELSE PWriteDR(p, v)
        must == q.written /\ p.written /\ OutVal(p) # OutVal(q)
        nxt == IF acc.mi <= Len(msgs) THEN msgs[acc.mi] ELSE <<>>
        hit == q.written /\ nxt = IoportMsgS(n, OutVal(q), stamp)
        free == ~q.written /\ acc.mi <= Len(msgs) /\ (\E vv \in 0..255 : nxt = IoportMsgS(n, vv, stamp))
    IN [acc EXCEPT !.ports[n] = q,
                   !.mi = IF hit \/ free THEN @ + 1 ELSE @,
                   !.ok = @ /\ (must => hit)]
  ELSE [acc EXCEPT !.mem = WrAll(@, << <<a, v>> >>), !.tm = TimerWrite(@, a, v, acc.mem)]

PinOne(acc, n, v) == IF n \in Ports THEN [acc EXCEPT !.ports[n] = PExtIn(@, v)] ELSE acc

(* ---- control lines of one poll, in order --------------------------------------------------- *)
RECURSIVE LinesFold(_, _, _, _, _)
LinesFold(acc, lines, i, msgs, stamp) ==
  IF i > Len(lines) \/ acc.stopped THEN acc
  ELSE LET f == LineEffect(lines[i])
           a2 == CASE f.k = "pause" -> [acc EXCEPT !.paused = TRUE]
                   [] f.k = "start" -> [acc EXCEPT !.paused = FALSE]
                   [] f.k = "stop"  -> [acc EXCEPT !.stopped = TRUE]
                   [] f.k = "u8"    -> StoreOne(acc, f.a, f.v, msgs, stamp)
                   [] f.k = "pin"   -> PinOne(acc, f.p, f.v)
                   [] f.k = "dubious" -> [acc EXCEPT !.dub = TRUE]
                   [] OTHER -> acc
       IN LinesFold(a2, lines, i + 1, msgs, stamp)

NonSpecial(a) == ~IsPortReg(a) /\ a # TCNT0 /\ a # TCSR0
(* logged diff d agrees with memory m2 (after) relative to m1 (before) on all plain addresses *)
PlainDiffOK(d, m1, m2) ==
  /\ \A i \in 1..Len(d) : NonSpecial(d[i][1]) => Rd(m2, d[i][1]) = d[i][2]
  /\ \A a \in DOMAIN m2.ov : (NonSpecial(a) /\ Rd(m2, a) # Rd(m1, a)) => \E i \in 1..Len(d) : d[i][1] = a /\ d[i][2] = Rd(m2, a)
PortsReadOK(pp, dr) == \A n \in Ports : ReadOK(pp[n], dr[n])

PollEvent(e) ==
  LET acc0 == [ports |-> vPorts, mem |-> M(vS), tm |-> vTm, mi |-> 1, ok |-> TRUE, paused |-> vPaused, stopped |-> vStopped, dub |-> FALSE]
      acc  == LinesFold(acc0, e.lines, 1, e.msgs, e.sum)
      ok   == /\ acc.ok /\ acc.mi = Len(e.msgs) + 1                 \* every announcement owed was made, nothing else was said
              /\ PlainDiffOK(e.wr, M(vS), acc.mem)
              /\ PortsReadOK(acc.ports, e.dr)
              /\ ~acc.stopped                                        \* after a stop line run() returns: no further poll is observed
              /\ e.sum = vSum
  IN /\ IF ok \/ acc.dub THEN TRUE ELSE Rep("MISMATCH", e, "control lines of one poll", <<"effects of the lines">>)
     /\ vS' = [vS EXCEPT !.ov = WrAll(acc.mem, e.wr).ov]
     /\ vPorts' = acc.ports /\ vOdr' = [n \in Ports |-> e.dr[n]] /\ vTm' = acc.tm
     /\ vPaused' = acc.paused /\ vStopped' = acc.stopped
     /\ cov' = cov \cup {<<"poll", IF Len(e.lines) = 0 THEN "empty" ELSE IF Len(e.lines) = 1 THEN "single" ELSE "batch">>}
     /\ UNCHANGED <<vPend, vReq, vEnt, vSum, vExit, vDirty>>

(* ---- one iteration -------------------------------------------------------------------------- *)
RegsOK(post, x) ==
  /\ ErOf(post) = x.er /\ (CcrOf(post) & x.cm) = (x.ccr & x.cm)
  /\ post[18] = x.pc \div P16 /\ post[19] = x.pc % P16
BagMinus(big, small) ==        \* elements of big not matched by small (as a sequence); big must contain small
  LET RECURSIVE F(_, _)
      F(b, sm) == IF Len(sm) = 0 THEN b ELSE F(RemoveOne(b, sm[1]), Tail(sm))
  IN F(big, small)
SubBagOf(small, big) == \A v \in 0..255 : Cardinality({i \in 1..Len(small) : small[i] = v}) <= Cardinality({i \in 1..Len(big) : big[i] = v})

(* state after accepting candidate c (0 = none): [ok, vS, wr] *)
AfterAccept(c) ==
  IF c = 0 THEN [ok |-> TRUE, s |-> SS(vS), wr |-> <<>>]
  ELSE LET x == AcceptF(SS(vS), c)
           w == CHOOSE q \in x.wr : TRUE
       IN [ok |-> x.res = "ok", s |-> [er |-> x.er, ccr |-> x.ccr, pc |-> x.pc, mem |-> WrAll(M(vS), w)], wr |-> w]

ItEvent(e) ==
  LET cands == {0} \cup {v \in 1..255 : CanAccept(vS, vPend, v)}
      try(c) == LET a == AfterAccept(c) IN [c |-> c, a |-> a, x |-> StepF(a.s)]
      good(c) == LET t == try(c) IN t.a.ok /\ (t.x.res = "any" \/ (t.x.res = "ok" /\ RegsOK(e.post, t.x)))
      G == {c \in cands : good(c)}
      c == IF G = {} THEN 0 ELSE CHOOSE v \in G : TRUE
      t == try(c)
      x == t.x
      anyx == x.res = "any"
      (* instruction writes: the admissible alternative that agrees with the log, wild cards resolved from the log *)
      alts == {w \in x.wr : \A i \in 1..Len(w) : w[i][2] = -1 \/ ~NonSpecial(w[i][1])
                                  \/ (LET dv == {j \in 1..Len(e.wr) : e.wr[j][1] = w[i][1]}
                                      IN IF dv = {} THEN Rd(t.a.s.mem, w[i][1]) = w[i][2] ELSE e.wr[CHOOSE j \in dv : TRUE][2] = w[i][2])}
      w == IF alts = {} THEN <<>> ELSE CHOOSE q \in alts : TRUE
      resolved == [i \in 1..Len(w) |-> IF w[i][2] # -1 THEN w[i]
                                       ELSE LET dv == {j \in 1..Len(e.wr) : e.wr[j][1] = w[i][1]}
                                            IN <<w[i][1], IF dv = {} THEN Rd(t.a.s.mem, w[i][1]) ELSE e.wr[CHOOSE j \in dv : TRUE][2]>>]
      acc0 == [ports |-> vPorts, mem |-> t.a.s.mem, tm |-> vTm, mi |-> 1, ok |-> TRUE, paused |-> FALSE, stopped |-> FALSE, dub |-> FALSE]
      RECURSIVE WFold(_, _)
      WFold(acc, i) == IF i > Len(resolved) THEN acc ELSE WFold(StoreOne(acc, resolved[i][1], resolved[i][2], e.msgs, vSum), i + 1)
      acc == WFold(acc0, 1)
      (* messages of the iteration: announcements of port writes, the stdout message of a write call, then sync *)
      sum2 == SumAdd(vSum, e.st)
      crossed == sum2[1] \div 2 > vSum[1] \div 2
      rest == SubSeq(e.msgs, acc.mi, Len(e.msgs))
      expRest == (IF x.sys = "write" /\ (Len(x.con) > 0 \/ (Len(rest) > 0 /\ rest[1] = StdoutPrefix)) THEN <<StdoutPrefix \o x.con>> ELSE <<>>)
                 \o (IF crossed THEN <<SyncMsg(sum2)>> ELSE <<>>)
      memI == acc.mem                                  \* memory after the instruction, before the timer
      (* timer: the charged states are what the peripherals see *)
      kept == IF c = 0 THEN vPend ELSE RemoveOne(vPend, c)
      newreq == IF SubBagOf(kept, e.pend) THEN BagMinus(e.pend, kept) ELSE <<>>
      tk == TimerTick(acc.tm, [n |-> e.st, tcnt |-> e.tcnt, tcsr |-> e.tcsr, req |-> newreq, wr |-> <<>>], memI)
      memT == tk.bm
      ok == /\ ~vPaused /\ ~vStopped /\ vS.pc # vExit
            /\ G # {}
            /\ (anyx \/ (/\ alts # {} /\ acc.ok
                         /\ rest = expRest
                         /\ e.con = x.con
                         /\ PlainDiffOK(e.wr, M(vS), memI)
                         /\ PortsReadOK(acc.ports, e.dr)))
            /\ e.sum = sum2
            /\ SubBagOf(kept, e.pend)
            /\ tk.ok
      why == (IF vPaused THEN <<"executed while vPaused">> ELSE <<>>) \o (IF vStopped THEN <<"executed after stop">> ELSE <<>>)
             \o (IF vS.pc = vExit THEN <<"continued past the exit address">> ELSE <<>>)
             \o (IF G = {} THEN <<"registers / pc / ccr after the instruction (with any admissible interrupt acceptance)">> ELSE <<>>)
             \o (IF G # {} /\ ~anyx /\ (alts = {} \/ ~PlainDiffOK(e.wr, M(vS), memI)) THEN <<"memory">> ELSE <<>>)
             \o (IF G # {} /\ ~anyx /\ (~acc.ok \/ rest # expRest) THEN <<"messages">> ELSE <<>>)
             \o (IF G # {} /\ ~anyx /\ e.con # x.con THEN <<"console">> ELSE <<>>)
             \o (IF e.sum # sum2 THEN <<"state count">> ELSE <<>>)
             \o (IF ~SubBagOf(kept, e.pend) THEN <<"pending request lost">> ELSE <<>>)
             \o (IF ~tk.ok THEN <<"timer: " \o tk.why>> ELSE <<>>)
  IN /\ IF ok THEN TRUE ELSE Rep("MISMATCH", e @@ [res |-> "it"], RowName(x), why)
     /\ vS' = PostState(e, WrAll(memT, e.wr))
     /\ vPend' = e.pend
     /\ vReq' = <<>>
     /\ vEnt' = <<>>
     /\ vSum' = e.sum
     /\ vPorts' = acc.ports /\ vOdr' = [n \in Ports |-> e.dr[n]]
     /\ vTm' = tk.tm
     /\ cov' = cov \cup {<<"it", RowName(x)>>} \cup (IF c # 0 THEN {<<"it", "interrupt accepted">>} ELSE {})
                   \cup (IF crossed THEN {<<"it", "sync">>} ELSE {})
     /\ UNCHANGED <<vPaused, vStopped, vExit, vDirty>>

RetEvent(e) ==
  LET acc0 == [ports |-> vPorts, mem |-> M(vS), tm |-> vTm, mi |-> 1, ok |-> TRUE, paused |-> vPaused, stopped |-> vStopped, dub |-> FALSE]
      acc  == LinesFold(acc0, e.lines, 1, e.msgs, vSum)
      cands == {0} \cup {v \in 1..255 : CanAccept(vS, vPend, v)}
      failing(c) == LET a == AfterAccept(c) IN ~a.ok \/ StepF(a.s).res \in {"err", "any"}
      ok == CASE e.res = "ok" -> acc.stopped \/ (vS.pc = vExit /\ Len(e.lines) = 0)
              [] e.res = "err" -> ~acc.stopped /\ ~vPaused /\ vS.pc # vExit /\ \E c \in cands : failing(c)
              [] OTHER -> FALSE
  IN /\ IF ok \/ acc.dub THEN TRUE
        ELSE Rep("MISMATCH", e, "run returned", <<IF e.res = "ok" THEN "returned success although neither the exit address was reached nor a stop line received"
                                                  ELSE IF e.res = "err" THEN "returned an error although the next instruction is executable" ELSE "panic">>)
     /\ cov' = cov \cup {<<"ret", e.res>>}
     /\ UNCHANGED <<vS, vPend, vReq, vEnt, runvars>>

TcpEvent(e) ==
  /\ IF e.bytes = FlattenSeq([i \in 1..Len(e.msgs) |-> Frame(e.msgs[i])]) THEN TRUE
     ELSE Rep("MISMATCH", e @@ [res |-> "tcp"], "outgoing framing", <<"byte stream is not the escaped, newline-terminated message sequence">>)
  /\ cov' = cov \cup {<<"tcp", "">>}
  /\ UNCHANGED <<vS, vPend, vReq, vEnt, runvars>>

(***************************************************************************)
Consume ==
  /\ l <= NRec
  /\ LET e == Rec[l]
     IN CASE e.k = "load" -> LoadEvent(e)
          [] e.k = "req" -> ReqEvent(e)
          [] e.k = "acc" -> AccEvent(e)
          [] e.k = "step" -> StepEvent(e)
          [] e.k = "end" -> EndEvent(e)
          [] e.k = "cmp" -> CmpEvent(e)
          [] e.k = "poll" -> PollEvent(e)
          [] e.k = "it" -> ItEvent(e)
          [] e.k = "ret" -> RetEvent(e)
          [] e.k = "tcp" -> TcpEvent(e)
          [] OTHER -> PrintT("MISMATCH " \o ToJson([id |-> l, prop |-> PROP, row |-> "unknown-event-kind"])) /\ UNCHANGED <<cov, vS, vPend, vReq, vEnt, runvars>>
  /\ l' = l + 1

Finish ==
  /\ l = NRec + 1
  /\ PrintT("COVERAGE " \o ToJson([rows |-> SetToSeq(cov)]))
  /\ PrintT("DONE " \o ToString(NRec))
  /\ l' = l + 1
  /\ UNCHANGED <<cov, vS, vPend, vReq, vEnt, runvars>>

Init == /\ l = 1 /\ cov = {}
        /\ vS = [er |-> [n \in 0..7 |-> <<0, 0>>], ccr |-> 0, pc |-> 0, ov |-> <<>>, li |-> 1]
        /\ vPend = <<>> /\ vReq = Zero64 /\ vEnt = Zero64 /\ vSum = <<0, 0>>
        /\ vPorts = [k \in Ports |-> PortInit] /\ vOdr = [k \in Ports |-> 0] /\ vTm = TimerTraceInit
        /\ vPaused = FALSE /\ vStopped = FALSE /\ vExit = -1 /\ vDirty = {}
Next == Consume \/ Finish
Spec == Init /\ [][Next]_vars
=============================================================================
