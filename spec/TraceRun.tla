------------------------------- MODULE TraceRun -------------------------------
(***************************************************************************)
(* Trace validation of THREADED executions of the real CPU: the            *)
(* specification executes the same guest program, event by event.          *)
(*                                                                         *)
(*   load : (re)initialised machine - full register file, memory image     *)
(*   vReq  : a peripheral requests interrupt v                    (C10)     *)
(*   acc  : instruction boundary: the pending queue is consulted (C10,C06) *)
(*   step : one instruction (fetch + exec)                  (C01-C08, C05) *)
(*   end  : end of a stepped program: all requests must have been entered  *)
(*   cmp  : two projections that must be equal (hyper-property steps)      *)
(* Run-loop events (poll / it / ret, properties C13, C18, C10, C17) are    *)
(* handled by the second half of the module.                               *)
(***************************************************************************)
EXTENDS H8Obs, H8Deviations, H8Intc, H8Port, H8Timer, H8Sock, Json, IOUtils, SequencesExt

Rec  == ndJsonDeserialize(IOEnv.TRACE)
PROP == IOEnv.PROP
NRec == Len(Rec)
INTERVAL == 2000000            \* sync message interval in states

VARIABLES l,       \* index of the next event
          vR       \* ONE record holding the whole trace state.  TLC invalidates its cache of LET values whenever
                   \* a primed variable gets assigned, so every event handler computes its new state in one LET
                   \* block and assigns it with a single conjunct.  Fields:
                   \*   s      machine state [er, ccr, pc, ov, li]: ov = bytes written so far, li = index of the
                   \*          `load` event whose image the history started from (the image itself stays out of
                   \*          the state: TLC compares whole states when it reuses cached values)
                   \*   pend   pending interrupt requests (sequence)
                   \*   req, ent  ghost histories: vectors requested / entered since the last load
                   \*   sum    cumulative state count <<millions, units>>
                   \*   ports, odr  port records (intended) and last observed DR bytes
                   \*   tm     timer trace state;  paused, stopped, exit: run-loop state;  cov: coverage
vars == <<l, vR>>
vS == vR.s  vPend == vR.pend  vReq == vR.req  vEnt == vR.ent  vSum == vR.sum  vPorts == vR.ports  vOdr == vR.odr
vTm == vR.tm  vPaused == vR.paused  vStopped == vR.stopped  vExit == vR.exit  cov == vR.cov

Zero64 == <<>>
(* the memory image of the current history and the full machine state handed to H8Exec *)
M(st) == [bg |-> Rec[st.li].bg, runs |-> Rec[st.li].pk, ov |-> st.ov]
SS(st) == [er |-> st.er, ccr |-> st.ccr, pc |-> st.pc, mem |-> M(st)]
CountIn(sq, v) == Cardinality({i \in 1..Len(sq) : sq[i] = v})
Rep(kind, e, what, extra) ==
  PrintT(kind \o " " \o ToJson([id |-> e.id, prop |-> PROP, row |-> what, exp |-> "ok", got |-> IF "res" \in DOMAIN e THEN e.res ELSE "-",
                                fields |-> extra, dev |-> IF kind = "DEVIATION" THEN extra[1] ELSE ""]))

StateOfLoad(e) == [er |-> ErOf(e.pre), ccr |-> CcrOf(e.pre), pc |-> PcOf(e.pre), ov |-> <<>>, li |-> l]
PostState(e, mem2) == [er |-> ErOf(e.post), ccr |-> CcrOf(e.post), pc |-> PcOf(e.post), ov |-> mem2.ov, li |-> vS.li]

RunVal0(pk, a) == LET v == RunVal(pk, a) IN IF v < 0 THEN 0 ELSE v
LoadEvent(e) ==
  /\ vR' = [vR EXCEPT !.s = StateOfLoad(e), !.pend = e.pend, !.req = e.pend, !.ent = <<>>, !.sum = IF "sum" \in DOMAIN e THEN e.sum ELSE <<0, 0>>, (* a snapshot taken in mid-run: direction registers and pin levels as the registers show them, the  *)
                      (* output latch unknown until the next DR write; the timer runs with whatever TCR says, phase unknown *)
                      !.ports = [k \in Ports |-> [ddr |-> RunVal0(e.pk, DdrLo + k - 1), latch |-> 0, written |-> FALSE, pin |-> RunVal0(e.pk, DrLo + k - 1)]],
                      !.odr = [k \in Ports |-> RunVal0(e.pk, DrLo + k - 1)],
                      !.tm = TimerWrite(TimerTraceInit, TCR0, RunVal0(e.pk, TCR0), <<>>), !.paused = FALSE, !.stopped = FALSE, !.kf = 0, !.exit = IF "exit" \in DOMAIN e THEN e.exit[1] * P16 + e.exit[2] ELSE -1]

SameBag(a, b) == Len(a) = Len(b) /\ \A v \in 0..255 : Cardinality({i \in 1..Len(a) : a[i] = v}) = Cardinality({i \in 1..Len(b) : b[i] = v})
(* `snap`: a state snapshot logged every few thousand iterations of a long run.  As the FIRST event of a  *)
(* shard it initialises the trace state; anywhere else it must agree with the state the specification    *)
(* has reached (so consecutive shards of one run chain soundly: shard k ends in the check, shard k+1     *)
(* starts from the same snapshot - the orchestrator duplicates the event at the cut).                    *)
SnapEvent(e) ==
  IF l = 1 THEN LoadEvent(e) /\ TRUE
  ELSE /\ IF ErOf(e.pre) = vS.er /\ CcrOf(e.pre) = vS.ccr /\ PcOf(e.pre) = vS.pc /\ e.sum = vSum /\ SameBag(e.pend, vPend) THEN TRUE
          ELSE Rep("MISMATCH", e, "snapshot", <<"state reached by the specification differs from the snapshot">>)
       /\ vR' = [vR EXCEPT !.cov = cov \cup {<<"snap", "">>}]

ReqEvent(e) ==
  /\ vR' = [vR EXCEPT !.pend = Request(vPend, e.v), !.req = Append(vReq, e.v)]

(* the logged queue must be the spec's multiset of pending requests *)

(* instruction boundary: e.entered = vector entered, 0 = none *)
AccEvent(e) ==
  IF e.entered = 0 THEN
    (* not accepting is always allowed at a single boundary (C10 is an eventuality; see `end`) *)
    /\ IF e.res = "ok" /\ ErOf(e.post) = vS.er /\ CcrOf(e.post) = vS.ccr /\ PcOf(e.post) = vS.pc /\ e.wr = <<>> /\ SameBag(e.pend, vPend) THEN TRUE
       ELSE Rep("MISMATCH", e, "boundary without acceptance", <<"state changed">>)
    /\ vR' = [vR EXCEPT !.cov = cov \cup {<<"acc", IF Len(vPend) = 0 THEN "idle" ELSE IF IFlag(vS) = 1 THEN "masked" ELSE "deferred">>}]
  ELSE
    LET v  == e.entered
        x  == AcceptF(SS(vS), v)
        ok == /\ CanAccept(vS, vPend, v)                       \* pending, and the I bit is clear
              /\ (x.res = "ok" => e.res = "ok" /\ PostOK(e, SS(vS), x))
              /\ (x.res = "err" => e.res = "err")
              /\ SameBag(e.pend, RemoveOne(vPend, v))
        why == IF ~IsPending(vPend, v) THEN "entered a vector that was not requested"
               ELSE IF IFlag(vS) = 1 THEN "accepted while CCR.I is set" ELSE "entry frame / vector / state"
    IN /\ IF ok THEN TRUE ELSE Rep("MISMATCH", e, "interrupt acceptance", <<why>>)
       /\ vR' = [vR EXCEPT !.s = PostState(e, WrAll(M(vS), e.wr)), !.pend = e.pend, !.ent = Append(vEnt, v), !.cov = cov \cup {<<"acc", "entered">>}]

StepOK(e, x) ==
  IF x.pw \/ (x.q = "odd" /\ PROP # "C09") THEN e.res # "panic"
  ELSE IF x.res = "ok" THEN e.res = "ok" /\ PostOK(e, SS(vS), x) /\ (PROP \in {"C20", "ALL"} /\ x.cyc >= 0 => e.st = x.cyc)
  ELSE IF x.res = "err" THEN e.res # "ok"
  ELSE e.res # "panic"

StepEvent(e) ==
  LET x == StepF(SS(vS))
      ok == StepOK(e, x)
      dev == IF ok THEN "" ELSE DevName(e, SS(vS), x, PROP)
  IN /\ IF ok THEN TRUE
        ELSE IF dev # "" THEN Rep("DEVIATION", e, RowName(x), <<dev>>)
        ELSE Rep("MISMATCH", e, RowName(x), Diffs(e, SS(vS), x))
     /\ vR' = [vR EXCEPT !.s = PostState(e, WrAll(M(vS), e.wr)), !.cov = cov \cup {<<"step", RowName(x)>>}]

(* end of a stepped program whose tail ran with I = 0: nothing may be left pending, and every *)
(* request was entered exactly once through its own vector                                    *)
EndEvent(e) ==
  /\ IF Len(vPend) = 0 /\ \A v \in 0..255 : CountIn(vEnt, v) = CountIn(vReq, v) THEN TRUE
     ELSE Rep("MISMATCH", e, "end of program", <<"requests lost or duplicated">>)
  /\ vR' = [vR EXCEPT !.cov = cov \cup {<<"end", "">>}]

CmpEvent(e) ==
  /\ IF e.a = e.b THEN TRUE ELSE Rep("MISMATCH", e, "cmp " \o e.what, <<"projections differ">>)
  /\ vR' = [vR EXCEPT !.cov = cov \cup {<<"cmp", e.what>>}]

(***************************************************************************)
(* ======================  run loop (C13, C18, C10, C17)  ================ *)
(* One iteration of Cpu::run =  Poll . (vPaused ? skip : Accept? . Step .   *)
(* Account . Sync? . Tick . ExitTest).  The specification has NO wall      *)
(* clock: pacing is invisible by construction, which is the determinism    *)
(* claim of C13 - every run must be this one behaviour.                    *)
(***************************************************************************)
Mil == 1000000
SumAdd(a, n) == LET u == a[2] + n IN <<a[1] + (u \div Mil), u % Mil>>
SumInt(a) == a[1] * Mil + a[2]                    \* only used while it stays below 2^31
Pad6(u) == LET d == DecStr(u) IN [i \in 1..(6 - Len(d)) |-> 48] \o d
SumStr(a) == IF a[1] = 0 THEN DecStr(a[2]) ELSE DecStr(a[1]) \o Pad6(a[2])
SyncMsg(a) == <<115, 121, 110, 99, 58>> \o SumStr(a)          \* "sync:<total>"
IoportMsgS(n, v, a) == IoportPrefix \o HexStr(n) \o <<58>> \o HexStr(v) \o <<58>> \o SumStr(a)

(* ---- a sequence of byte stores through the bus (control lines, instruction writes), with the  *)
(* ---- announcements they must produce consumed from the observed message stream in order       *)
(* acc = [vPorts, mem, vTm, mi, ok]                                                                *)
StoreOne(acc, a, v, msgs, stamp) ==
  IF ~Accessible(a) THEN acc
  ELSE IF IsPortReg(a) THEN
    LET n == IF IsDdr(a) THEN a - DdrLo + 1 ELSE a - DrLo + 1
        p == acc.ports[n]
        q == IF IsDdr(a) THEN PWriteDDR(p, v) ELSE PWriteDR(p, v)
        must == q.written /\ p.written /\ OutVal(p) # OutVal(q)
        nxt == IF acc.mi <= Len(msgs) THEN msgs[acc.mi] ELSE <<>>
        hit == q.written /\ nxt = IoportMsgS(n, OutVal(q), stamp)
        free == ~q.written /\ acc.mi <= Len(msgs) /\ (\E vv \in 0..255 : nxt = IoportMsgS(n, vv, stamp))
    IN [acc EXCEPT !.ports[n] = q,
                   !.mem = WrAll(@, << <<DdrLo + n - 1, q.ddr>>, <<DrLo + n - 1, ReadDR(q)>> >>),   \* what the registers read back
                   !.mi = IF hit \/ free THEN @ + 1 ELSE @,
                   !.ok = @ /\ (must => hit)]
  ELSE [acc EXCEPT !.mem = WrAll(@, << <<a, v>> >>), !.tm = TimerWrite(@, a, v, acc.mem)]

PinOne(acc, n, v) ==
  IF n \in Ports THEN LET q == PExtIn(acc.ports[n], v)
                      IN [acc EXCEPT !.ports[n] = q, !.mem = WrAll(@, << <<DrLo + n - 1, ReadDR(q)>> >>)]
  ELSE acc

(* ---- control lines of one poll, in order --------------------------------------------------- *)
RECURSIVE LinesFold(_, _, _, _, _)
LinesFold(acc, lines, i, msgs, stamp) ==
  IF i > Len(lines) \/ acc.stopped THEN acc
  ELSE LET f == LineEffect(lines[i])
           a2 == CASE f.k = "pause" -> [acc EXCEPT !.paused = TRUE]
                   [] f.k = "start" -> [acc EXCEPT !.paused = FALSE]
                   [] f.k = "stop"  -> [acc EXCEPT !.stopped = TRUE]
                   [] f.k = "u8"    -> StoreOne(acc, f.a, f.v, msgs, stamp)
                   [] f.k = "pin"   -> PinOne(acc, f.p, f.v)
                   [] f.k = "dubious" -> [acc EXCEPT !.dub = TRUE]
                   [] OTHER -> acc
       IN LinesFold(a2, lines, i + 1, msgs, stamp)

(* ---- named deviation Port_DR_has_no_latch (known finding of C16) seen through control lines ------ *)
(* The exact relation of the emulator's latch-less data register (see TraceBus.DevPort), folded over  *)
(* the lines of one poll: dv = [dr, ddr, pin : per port, msgs : announcements in order].              *)
DevStore(dv, a, v, stamp) ==
  IF ~Accessible(a) \/ ~IsPortReg(a) THEN dv
  ELSE IF IsDr(a) THEN
    LET n == a - DrLo + 1
    IN IF v = dv.dr[n] THEN dv
       ELSE [dv EXCEPT !.dr[n] = (v & dv.ddr[n]) | (dv.pin[n] & Inv8(dv.ddr[n])), !.msgs = Append(@, IoportMsgS(n, v & dv.ddr[n], stamp))]
  ELSE
    LET n == a - DdrLo + 1
        nd == (dv.dr[n] & v) | (dv.pin[n] & Inv8(v))
    IN IF v = dv.ddr[n] THEN dv
       ELSE [dv EXCEPT !.dr[n] = nd, !.ddr[n] = v, !.msgs = Append(@, IoportMsgS(n, nd & v, stamp))]
DevPin(dv, n, v) == IF n \in Ports THEN [dv EXCEPT !.dr[n] = (@ & dv.ddr[n]) | (v & Inv8(dv.ddr[n])), !.pin[n] = v] ELSE dv
RECURSIVE DevFold(_, _, _, _)
DevFold(dv, lines, i, stamp) ==
  IF i > Len(lines) THEN dv
  ELSE LET f == LineEffect(lines[i])
       IN IF f.k = "stop" THEN dv
          ELSE DevFold(IF f.k = "u8" THEN DevStore(dv, f.a, f.v, stamp) ELSE IF f.k = "pin" THEN DevPin(dv, f.p, f.v) ELSE dv, lines, i + 1, stamp)

NonSpecial(a) == ~IsPortReg(a) /\ a # TCNT0 /\ a # TCSR0
(* logged diff d agrees with memory m2 (after) relative to m1 (before) on all plain addresses *)
PlainDiffOK(d, m1, m2) ==
  /\ \A i \in 1..Len(d) : NonSpecial(d[i][1]) => Rd(m2, d[i][1]) = d[i][2]
  /\ \A a \in DOMAIN m2.ov : (NonSpecial(a) /\ Rd(m2, a) # Rd(m1, a)) => \E i \in 1..Len(d) : d[i][1] = a /\ d[i][2] = Rd(m2, a)
PortsReadOK(pp, dr) == \A n \in Ports : ReadOK(pp[n], dr[n])

PollEvent(e) ==
  LET acc0 == [ports |-> vPorts, mem |-> M(vS), tm |-> vTm, mi |-> 1, ok |-> TRUE, paused |-> vPaused, stopped |-> vStopped, dub |-> FALSE]
      acc  == LinesFold(acc0, e.lines, 1, e.msgs, e.sum)
      ok   == /\ acc.ok /\ acc.mi = Len(e.msgs) + 1                 \* every announcement owed was made, nothing else was said
              /\ PlainDiffOK(e.wr, M(vS), acc.mem)
              /\ PortsReadOK(acc.ports, e.dr)
              /\ ~acc.stopped                                        \* after a stop line run() returns: no further poll is observed
              /\ e.sum = vSum
      dv   == DevFold([dr |-> vOdr, ddr |-> [n \in Ports |-> vPorts[n].ddr], pin |-> [n \in Ports |-> vPorts[n].pin], msgs |-> <<>>], e.lines, 1, e.sum)
      devOK == /\ \A n \in Ports : e.dr[n] = dv.dr[n]
               /\ e.msgs = dv.msgs
               /\ PlainDiffOK(e.wr, M(vS), acc.mem) /\ ~acc.stopped /\ e.sum = vSum
  IN /\ IF ok \/ acc.dub \/ PROP = "C15" THEN TRUE
        ELSE IF devOK THEN Rep("DEVIATION", e, "control lines of one poll", <<"Port_DR_has_no_latch">>)
        ELSE Rep("MISMATCH", e, "control lines of one poll", <<"effects of the lines">>)
     /\ vR' = [vR EXCEPT !.s = [vS EXCEPT !.ov = WrAll(acc.mem, e.wr).ov], !.ports = acc.ports, !.odr = [n \in Ports |-> e.dr[n]], !.tm = acc.tm, !.paused = acc.paused, !.stopped = acc.stopped, !.cov = cov \cup {<<"poll", IF Len(e.lines) = 0 THEN "empty" ELSE IF Len(e.lines) = 1 THEN "single" ELSE "batch">>}]

(* ---- one iteration -------------------------------------------------------------------------- *)
RegsOK(post, x) ==
  /\ ErOf(post) = x.er /\ (CcrOf(post) & x.cm) = (x.ccr & x.cm)
  /\ post[18] = x.pc \div P16 /\ post[19] = x.pc % P16
BagMinus(big, small) ==        \* elements of big not matched by small (as a sequence); big must contain small
  LET RECURSIVE F(_, _)
      F(b, sm) == IF Len(sm) = 0 THEN b ELSE F(RemoveOne(b, sm[1]), Tail(sm))
  IN F(big, small)
SubBagOf(small, big) == \A v \in 0..255 : Cardinality({i \in 1..Len(small) : small[i] = v}) <= Cardinality({i \in 1..Len(big) : big[i] = v})

(* state after accepting candidate c (0 = none): [ok, s, wr] *)
AfterAccept(c) ==
  IF c = 0 THEN [ok |-> TRUE, s |-> SS(vS), wr |-> <<>>]
  ELSE LET x == AcceptF(SS(vS), c)
           w == CHOOSE q \in x.wr : TRUE
       IN [ok |-> x.res = "ok", s |-> [er |-> x.er, ccr |-> x.ccr, pc |-> x.pc, mem |-> WrAll(M(vS), w)], wr |-> w]
StepGood(x, post) == x.res = "any" \/ x.q = "odd" \/ (x.res = "ok" /\ RegsOK(post, x))

(* value of address a in the logged diff d, or in memory m if it did not change *)
Final(d, m, a) == LET dv == {j \in 1..Len(d) : d[j][1] = a} IN IF dv = {} THEN Rd(m, a) ELSE d[CHOOSE j \in dv : TRUE][2]
(* an admissible write sequence agrees with the log on its determined plain bytes *)
AltOK(w, d, m) == \A i \in 1..Len(w) : w[i][2] = -1 \/ ~NonSpecial(w[i][1]) \/ Final(d, m, w[i][1]) = w[i][2]
(* wild cards resolved from the log *)
Resolve(w, d, m) == [i \in 1..Len(w) |-> IF w[i][2] # -1 THEN w[i] ELSE <<w[i][1], Final(d, m, w[i][1])>>]
RECURSIVE WritesFold(_, _, _, _, _)
WritesFold(acc, ws, i, msgs, stamp) ==
  IF i > Len(ws) THEN acc ELSE WritesFold(StoreOne(acc, ws[i][1], ws[i][2], msgs, stamp), ws, i + 1, msgs, stamp)

ItEvent(e) ==
  LET (* which request, if any, was accepted at this boundary: the candidate whose outcome the log shows *)
      a0 == AfterAccept(0)
      lite == PROP \in {"C13L", "C18", "C15"}      \* long runs: accounting / sync / timer / continuity only, no instruction semantics
      x0 == IF lite THEN AnyR(a0.s, 0) ELSE StepF(a0.s)
      VC == IF StepGood(x0, e.post) THEN {} ELSE {v \in 1..255 : CanAccept(vS, vPend, v)}
      av == [v \in VC |-> AfterAccept(v)]
      xv == [v \in VC |-> StepF(av[v].s)]
      Gv == {v \in VC : av[v].ok /\ StepGood(xv[v], e.post)}
      c  == IF Gv = {} THEN 0 ELSE CHOOSE v \in Gv : TRUE
      found == StepGood(x0, e.post) \/ Gv # {}
      ta == IF c = 0 THEN a0 ELSE av[c]
      x  == IF c = 0 THEN x0 ELSE xv[c]
      anyx == x.res = "any" \/ x.q = "odd"
      m1 == ta.s.mem                                   \* memory after the acceptance, before the instruction
      alts == {w \in x.wr : AltOK(w, e.wr, m1)}
      w == IF alts = {} THEN <<>> ELSE Resolve(CHOOSE q \in alts : TRUE, e.wr, m1)
      acc0 == [ports |-> vPorts, mem |-> m1, tm |-> vTm, mi |-> 1, ok |-> TRUE, paused |-> FALSE, stopped |-> FALSE, dub |-> FALSE]
      acc == WritesFold(acc0, w, 1, e.msgs, vSum)
      (* messages of the iteration: announcements of port writes, the stdout message of a write call, then sync *)
      sum2 == SumAdd(vSum, e.st)
      crossed == sum2[1] \div 2 > vSum[1] \div 2
      rest == SubSeq(e.msgs, acc.mi, Len(e.msgs))
      expRest == (IF x.sys = "write" /\ (Len(x.con) > 0 \/ (Len(rest) > 0 /\ rest[1] = StdoutPrefix)) THEN <<StdoutPrefix \o x.con>> ELSE <<>>)
                 \o (IF crossed THEN <<SyncMsg(sum2)>> ELSE <<>>)
      memI == acc.mem                                  \* memory after the instruction, before the timer
      (* timer: the charged states are what the peripherals see *)
      kept == IF c = 0 THEN vPend ELSE RemoveOne(vPend, c)
      sub == SubBagOf(kept, e.pend)
      newreq == IF sub THEN BagMinus(e.pend, kept) ELSE <<>>
      tk == TimerTick(acc.tm, [n |-> e.st, tcnt |-> e.tcnt, tcsr |-> e.tcsr, req |-> newreq, wr |-> <<>>], memI)
      memOK == alts # {} /\ PlainDiffOK(e.wr, M(vS), memI)
      msgOK == acc.ok /\ rest = expRest
      (* lite: the instruction stream is continuous (an interrupt may intervene), nothing but sync is said *)
      liteOK == /\ (e.pcb = <<vS.pc \div P16, vS.pc % P16>> \/ \E v \in 1..255 : CanAccept(vS, vPend, v))
                /\ e.msgs = (IF crossed THEN <<SyncMsg(sum2)>> ELSE <<>>)
      (* the amount booked for the iteration is the instruction's own charge (C20) times ONE speed factor for the  *)
      (* whole run (the emulator's "temporary speed adjustment"; whatever its value, it is the same every time)     *)
      (* (an instruction whose words straddle two regions is left out: "the instruction's own area" is not one area) *)
      costed == /\ ~lite /\ found /\ ~anyx /\ x.res = "ok" /\ x.cyc > 0 /\ x.row > 0
                /\ RegionOf(ta.s.pc) = RegionOf(ta.s.pc + RowLen(Forms[x.row]) - 1)
      chargeOK == ~costed \/ (IF vR.kf = 0 THEN e.st > 0 /\ e.st % x.cyc = 0 ELSE e.st = vR.kf * x.cyc)
      ok == /\ ~vPaused /\ ~vStopped /\ vS.pc # vExit
            /\ found /\ chargeOK
            /\ (IF lite THEN liteOK ELSE (anyx \/ (memOK /\ msgOK /\ e.con = x.con /\ PortsReadOK(acc.ports, e.dr))))
            /\ e.sum = sum2
            /\ sub
            /\ tk.ok
      why == (IF vPaused THEN <<"executed while paused">> ELSE <<>>) \o (IF vStopped THEN <<"executed after stop">> ELSE <<>>)
             \o (IF vS.pc = vExit THEN <<"continued past the exit address">> ELSE <<>>)
             \o (IF ~found THEN <<"registers / pc / ccr after the instruction (with any admissible interrupt acceptance)">> ELSE <<>>)
             \o (IF found /\ ~anyx /\ ~memOK THEN <<"memory">> ELSE <<>>)
             \o (IF found /\ ~anyx /\ ~msgOK THEN <<"messages">> ELSE <<>>)
             \o (IF found /\ ~anyx /\ e.con # x.con THEN <<"console">> ELSE <<>>)
             \o (IF found /\ ~anyx /\ ~PortsReadOK(acc.ports, e.dr) THEN <<"port read-back">> ELSE <<>>)
             \o (IF lite /\ ~liteOK THEN <<"instruction stream not continuous, or a message other than the due sync">> ELSE <<>>)
             \o (IF e.sum # sum2 THEN <<"state count">> ELSE <<>>)
             \o (IF ~chargeOK THEN <<"amount booked is not the instruction's charge times the run's speed factor">> ELSE <<>>)
             \o (IF ~sub THEN <<"pending request lost">> ELSE <<>>)
             \o (IF ~tk.ok THEN <<"timer: " \o tk.why>> ELSE <<>>)
  IN /\ IF ok \/ PROP = "C15" THEN TRUE ELSE Rep("MISMATCH", e @@ [res |-> "it"], RowName(x), why)
     /\ vR' = [vR EXCEPT !.s = PostState(e, WrAll(tk.bm, e.wr)), !.pend = e.pend, !.req = <<>>, !.ent = <<>>, !.sum = e.sum, !.ports = acc.ports, !.odr = [n \in Ports |-> e.dr[n]], !.tm = tk.tm, !.kf = (IF vR.kf = 0 /\ costed /\ chargeOK THEN e.st \div x.cyc ELSE vR.kf), !.cov = cov \cup {<<"it", RowName(x)>>} \cup (IF c # 0 THEN {<<"it", "interrupt accepted">>} ELSE {}) \cup (IF crossed THEN {<<"it", "sync">>} ELSE {})]

RetEvent(e) ==
  LET acc0 == [ports |-> vPorts, mem |-> M(vS), tm |-> vTm, mi |-> 1, ok |-> TRUE, paused |-> vPaused, stopped |-> vStopped, dub |-> FALSE]
      acc  == LinesFold(acc0, e.lines, 1, e.msgs, vSum)
      cands == {0} \cup {v \in 1..255 : CanAccept(vS, vPend, v)}
      fails == {c \in cands : ~AfterAccept(c).ok \/ StepF(AfterAccept(c).s).res \in {"err", "any"}}
      ok == CASE e.res = "ok" -> acc.stopped \/ (vS.pc = vExit /\ Len(e.lines) = 0)
              [] e.res = "err" -> ~acc.stopped /\ ~vPaused /\ vS.pc # vExit /\ fails # {}
              [] OTHER -> FALSE
      (* C18, outgoing side inside the process: over the whole run, the sequence handed to the transport (the socket's
         outgoing channel) is the sequence of emitted messages - same number, same order-sensitive digest; the
         framing of the transport itself is TcpEvent's business *)
      txOK == PROP # "C18" \/ "txe" \notin DOMAIN e \/ SubSeq(e.txe, 1, 6) = SubSeq(e.txe, 7, 12)
  IN /\ IF (PROP = "C15" /\ e.res # "panic") \/ (PROP # "C15" /\ (ok \/ acc.dub)) THEN TRUE
        ELSE Rep("MISMATCH", e, "run returned", <<IF e.res = "ok" THEN "returned success although neither the exit address was reached nor a stop line received"
                                                  ELSE IF e.res = "err" THEN "returned an error although the next instruction is executable" ELSE "panic">>)
     /\ IF txOK THEN TRUE
        ELSE Rep("MISMATCH", e, "outgoing messages", <<"the messages handed to the transport are not exactly the emitted messages, once each, in emission order">>)
     /\ vR' = [vR EXCEPT !.cov = cov \cup {<<"ret", e.res>>} \cup (IF "txe" \in DOMAIN e /\ e.txe[2] > 0 THEN {<<"ret", "transmitted = emitted">>} ELSE {})]

TcpEvent(e) ==
  /\ IF e.bytes = FlattenSeq([i \in 1..Len(e.msgs) |-> Frame(e.msgs[i])]) THEN TRUE
     ELSE Rep("MISMATCH", e @@ [res |-> "tcp"], "outgoing framing", <<"byte stream is not the escaped, newline-terminated message sequence">>)
  /\ vR' = [vR EXCEPT !.cov = cov \cup {<<"tcp", "">>}]

(***************************************************************************)
Consume ==
  /\ l <= NRec
  /\ LET e == Rec[l]
     IN CASE e.k = "load" -> LoadEvent(e)
          [] e.k = "req" -> ReqEvent(e)
          [] e.k = "snap" -> SnapEvent(e)
          [] e.k = "acc" -> AccEvent(e)
          [] e.k = "step" -> StepEvent(e)
          [] e.k = "end" -> EndEvent(e)
          [] e.k = "cmp" -> CmpEvent(e)
          [] e.k = "poll" -> PollEvent(e)
          [] e.k = "it" -> ItEvent(e)
          [] e.k = "ret" -> RetEvent(e)
          [] e.k = "tcp" -> TcpEvent(e)
          [] OTHER -> PrintT("MISMATCH " \o ToJson([id |-> l, prop |-> PROP, row |-> "unknown-event-kind"])) /\ UNCHANGED vR
  /\ l' = l + 1

Finish ==
  /\ l = NRec + 1
  /\ PrintT("COVERAGE " \o ToJson([rows |-> SetToSeq(cov)]))
  /\ PrintT("DONE " \o ToString(NRec))
  /\ l' = l + 1
  /\ UNCHANGED vR

Init == /\ l = 1
        /\ vR = [s |-> [er |-> [n \in 0..7 |-> <<0, 0>>], ccr |-> 0, pc |-> 0, ov |-> <<>>, li |-> 1],
                 pend |-> <<>>, req |-> <<>>, ent |-> <<>>, sum |-> <<0, 0>>,
                 ports |-> [k \in Ports |-> PortInit], odr |-> [k \in Ports |-> 0], tm |-> TimerTraceInit,
                 paused |-> FALSE, stopped |-> FALSE, exit |-> -1, kf |-> 0, cov |-> {}]
Next == Consume \/ Finish
Spec == Init /\ [][Next]_vars
=============================================================================
