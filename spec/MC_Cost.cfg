SPECIFICATION Spec
CONSTANTS
  Groups = {"C19", "C20"}
INVARIANT Inv
CHECK_DEADLOCK FALSE
