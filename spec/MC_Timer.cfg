SPECIFICATION Spec
CONSTANTS
  Configs <- ConfigsT
  Steps8 = {1, 2, 3, 5, 7, 8, 9, 17}
  Steps64 = {1, 7, 19, 33, 63, 64, 70, 129}
  MaxE8 = 44
  MaxE64 = 300
INVARIANT Inv
CHECK_DEADLOCK FALSE
