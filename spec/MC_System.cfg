SPECIFICATION Spec
CONSTANTS
  D = 8
  Cora = 3
  T = 16
  MaxTotal = 150
  MaxLines = 3
CONSTRAINT Bound
INVARIANT Inv
CHECK_DEADLOCK FALSE
