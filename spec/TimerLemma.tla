----------------------------- MODULE TimerLemma -----------------------------
(***************************************************************************)
(* Unbounded lemma behind property C17's first sentence, for Apalache:     *)
(* with the prescaler rule  state += n; q = state div D; state -= q D      *)
(* (count q times) the number of counts after E elapsed states is          *)
(* floor((E + p) / D) for the fixed phase p the residue started with -     *)
(* for EVERY way of splitting E into instruction charges 1..765 (255 x 3)  *)
(* and every D in {8, 64, 8192}.  Inductive invariant:                     *)
(*     K D + r = E + p  /\  0 <= r < D.                                    *)
(* (MC_Timer checks with TLC that the trace observer accepts exactly the   *)
(* behaviours that some fixed phase explains.)                             *)
(***************************************************************************)
EXTENDS Integers
CONSTANT
  \* @type: Int;
  D
VARIABLES
  \* @type: Int;
  E,
  \* @type: Int;
  K,
  \* @type: Int;
  r,
  \* @type: Int;
  p

ConstInit8 == D = 8
ConstInit64 == D = 64
ConstInit8192 == D = 8192
Init == E = 0 /\ K = 0 /\ p \in 0..(D - 1) /\ r = p
Step(n) ==
  \E q \in 0..100 :
    /\ q * D <= r + n /\ r + n < (q + 1) * D          \* q = (r + n) div D
    /\ K' = K + q /\ r' = r + n - q * D /\ E' = E + n /\ p' = p
Next == \E n \in 1..765 : Step(n)
IndInv0 == E >= 0 /\ K >= 0 /\ r >= 0 /\ r < D /\ p >= 0 /\ p < D /\ K * D + r = E + p
IndInit == E \in Int /\ K \in Int /\ r \in Int /\ p \in Int /\ IndInv0
IndInv == IndInv0
(* consequence, as the property states it *)
Floor == K * D <= E + p /\ E + p < (K + 1) * D
=============================================================================
