SPECIFICATION Spec
CONSTANTS
  Slots = {1, 2}
  Vals = {0, 255, 15}
  Depth = 3
  Emit = TRUE
CONSTRAINT Bound
CHECK_DEADLOCK FALSE
INVARIANT EmitInv
