---------------------------- MODULE ExportForms ----------------------------
(* Writes the instruction form table as ndjson (one row per line) to the    *)
(* file named by the environment variable OUT.  The conformance drivers     *)
(* instantiate encodings from this export; they hold no second copy of the  *)
(* encoding knowledge.                                                       *)
EXTENDS H8Forms, Json, IOUtils
ASSUME ndJsonSerialize(IOEnv.OUT, [i \in 1..NForms |-> [Forms[i] EXCEPT !.id = Forms[i].id] @@ [idx |-> i]])
ASSUME PrintT("EXPORTED " \o ToString(NForms))
VARIABLE x
Init == x = 0
Next == UNCHANGED x
=============================================================================
