------------------------------ MODULE H8Base ------------------------------
(***************************************************************************)
(* Machine arithmetic of the H8/300H for TLC.                              *)
(*                                                                         *)
(* TLC integers are 32-bit signed and overflow is an error, so every data  *)
(* value is a pair <<hi16, lo16>> ("V-value").  Bytes and words have       *)
(* hi = 0.  sz \in {1,2,4} is the operand size in bytes.                   *)
(* The definitions in the first part are the ones the operational          *)
(* semantics (H8Exec) uses; the "ripple" definitions at the end are an     *)
(* independent bit-level formulation used only by the declarative          *)
(* properties and the MC cross-checks.                                     *)
(***************************************************************************)
EXTENDS Integers, Sequences, FiniteSets, TLC, Bitwise

Mod(x, y) == x % y
Div(x, y) == x \div y

Byte == 0..255
Word == 0..65535
P16  == 65536

Bit(v, n) == (v \div (2^n)) % 2
Min2(a, b) == IF a < b THEN a ELSE b
Max2(a, b) == IF a > b THEN a ELSE b

V(x)      == <<0, x>>                 \* small value -> V-value
VHi(v)    == v[1]
VLo(v)    == v[2]
VZero     == <<0, 0>>
IsV(v)    == v[1] \in Word /\ v[2] \in Word

(* value range of a size *)
LoMod(sz) == IF sz = 1 THEN 256 ELSE 65536
Trunc(sz, v) == IF sz = 4 THEN v ELSE <<0, v[2] % LoMod(sz)>>
IsZeroV(v) == v[1] = 0 /\ v[2] = 0

(* sign bit of a sized value *)
Sg(sz, v) == IF sz = 1 THEN Bit(v[2], 7) ELSE IF sz = 2 THEN Bit(v[2], 15) ELSE Bit(v[1], 15)
(* bit below the sign bit *)
Sg2(sz, v) == IF sz = 1 THEN Bit(v[2], 6) ELSE IF sz = 2 THEN Bit(v[2], 14) ELSE Bit(v[1], 14)
B2N(b) == IF b THEN 1 ELSE 0

(***************************************************************************)
(* a + b + cin at size sz.  Result record: r (V-value), c, h, v flags.     *)
(* H is the carry out of bit 3 / 11 / 27.                                  *)
(***************************************************************************)
AddV(sz, a, b, cin) ==
  IF sz = 4 THEN
    LET lo  == a[2] + b[2] + cin
        c16 == lo \div P16
        hi  == a[1] + b[1] + c16
        r   == <<hi % P16, lo % P16>>
    IN [ r |-> r,
         c |-> hi \div P16,
         h |-> ((a[1] % 4096) + (b[1] % 4096) + c16) \div 4096,
         v |-> B2N(Sg(4, a) = Sg(4, b) /\ Sg(4, r) # Sg(4, a)) ]
  ELSE
    LET m   == LoMod(sz)
        hm  == IF sz = 1 THEN 16 ELSE 4096
        s   == a[2] + b[2] + cin
        r   == <<0, s % m>>
    IN [ r |-> r,
         c |-> s \div m,
         h |-> ((a[2] % hm) + (b[2] % hm) + cin) \div hm,
         v |-> B2N(Sg(sz, a) = Sg(sz, b) /\ Sg(sz, r) # Sg(sz, a)) ]

(***************************************************************************)
(* a - b - bin at size sz.  c / h are borrows (out of the msb / of bit 3,  *)
(* 11, 27).                                                                *)
(***************************************************************************)
SubV(sz, a, b, bin) ==
  IF sz = 4 THEN
    LET lo  == a[2] - b[2] - bin
        b16 == IF lo < 0 THEN 1 ELSE 0
        hi  == a[1] - b[1] - b16
        r   == <<(hi + P16) % P16, (lo + P16) % P16>>
    IN [ r |-> r,
         c |-> IF hi < 0 THEN 1 ELSE 0,
         h |-> IF (a[1] % 4096) - (b[1] % 4096) - b16 < 0 THEN 1 ELSE 0,
         v |-> B2N(Sg(4, a) # Sg(4, b) /\ Sg(4, r) # Sg(4, a)) ]
  ELSE
    LET m   == LoMod(sz)
        hm  == IF sz = 1 THEN 16 ELSE 4096
        s   == a[2] - b[2] - bin
        r   == <<0, (s + m) % m>>
    IN [ r |-> r,
         c |-> IF s < 0 THEN 1 ELSE 0,
         h |-> IF (a[2] % hm) - (b[2] % hm) - bin < 0 THEN 1 ELSE 0,
         v |-> B2N(Sg(sz, a) # Sg(sz, b) /\ Sg(sz, r) # Sg(sz, a)) ]

(* 32-bit add of a small signed integer (|k| < 65536) mod 2^32: register update *)
AddSmall32(a, k) ==
  LET lo == a[2] + k
      cy == IF lo >= P16 THEN 1 ELSE IF lo < 0 THEN -1 ELSE 0
  IN <<(a[1] + cy + P16) % P16, (lo + P16) % P16>>

(* logic on V-values *)
AndV(a, b) == <<a[1] & b[1], a[2] & b[2]>>
OrV(a, b)  == <<a[1] | b[1], a[2] | b[2]>>
XorV(a, b) == <<a[1] ^^ b[1], a[2] ^^ b[2]>>
NotV(sz, a) == IF sz = 4 THEN <<65535 - a[1], 65535 - a[2]>> ELSE <<0, LoMod(sz) - 1 - a[2]>>

(* one-bit shifts / rotates; cin is the bit shifted in.  Returns [r, c] *)
ShlV(sz, a, cin) ==
  IF sz = 4 THEN [ r |-> <<((a[1] * 2) % P16) + Bit(a[2], 15), ((a[2] * 2) % P16) + cin>>, c |-> Bit(a[1], 15) ]
  ELSE [ r |-> <<0, ((a[2] * 2) % LoMod(sz)) + cin>>, c |-> Sg(sz, a) ]
ShrV(sz, a, cin) ==
  IF sz = 4 THEN [ r |-> <<a[1] \div 2 + cin * 32768, a[2] \div 2 + (a[1] % 2) * 32768>>, c |-> a[2] % 2 ]
  ELSE [ r |-> <<0, a[2] \div 2 + cin * (LoMod(sz) \div 2)>>, c |-> a[2] % 2 ]

(* 24-bit addresses are plain integers *)
A24 == 16777216
Low24(v) == (v[1] % 256) * P16 + v[2]          \* low 24 bits of a 32-bit V-value
Sext16(w) == IF w >= 32768 THEN w - P16 ELSE w
Sext8(b)  == IF b >= 128 THEN b - 256 ELSE b
AddrV(a)  == <<a \div P16, a % P16>>            \* address as V-value (top byte 0)

(***************************************************************************)
(* CCR bit numbers                                                         *)
(***************************************************************************)
fC == 0  fV == 1  fZ == 2  fN == 3  fU == 4  fH == 5  fUI == 6  fI == 7

(* new CCR from old: each of h n z v c is 0, 1 or -1 (unchanged) *)
CcrWith(ccr, h, n, z, v, c) ==
  LET b(i, x) == IF x = -1 THEN Bit(ccr, i) ELSE x
  IN  Bit(ccr, 7) * 128 + Bit(ccr, 6) * 64 + b(5, h) * 32 + Bit(ccr, 4) * 16
      + b(3, n) * 8 + b(2, z) * 4 + b(1, v) * 2 + b(0, c)

(***************************************************************************)
(* Independent bit-level ("ripple") formulation, used by the declarative   *)
(* properties only.  Bits of a V-value are numbered 0..8*sz-1.             *)
(***************************************************************************)
VBit(v, i) == IF i < 16 THEN Bit(v[2], i) ELSE Bit(v[1], i - 16)
Maj(x, y, z) == IF x + y + z >= 2 THEN 1 ELSE 0
(* carries of a + b + cin: cy[i] = carry INTO bit i (a recursive FUNCTION, so TLC computes each entry once) *)
Carries(a, b, cin, w) ==
  LET cy[i \in 0..w] == IF i = 0 THEN cin ELSE Maj(VBit(a, i - 1), VBit(b, i - 1), cy[i - 1])
  IN cy
RippleAdd(sz, a, b, cin) ==
  LET w == 8 * sz
      cy == Carries(a, b, cin, w)
  IN [ bits |-> [i \in 0..(w - 1) |-> (VBit(a, i) + VBit(b, i) + cy[i]) % 2],
       c |-> cy[w],
       h |-> cy[w - 4],
       v |-> (cy[w] + cy[w - 1]) % 2 ]
(* subtraction as a + ~b + (1 - bin); borrow flags are the complemented carries *)
RippleSub(sz, a, b, bin) ==
  LET w  == 8 * sz
      nb == NotV(sz, b)
      cy == Carries(a, nb, 1 - bin, w)
  IN [ bits |-> [i \in 0..(w - 1) |-> (VBit(a, i) + VBit(nb, i) + cy[i]) % 2],
       c |-> 1 - cy[w],
       h |-> 1 - cy[w - 4],
       v |-> (cy[w] + cy[w - 1]) % 2 ]
BitsOf(sz, v) == [i \in 0..(8 * sz - 1) |-> VBit(v, i)]
=============================================================================
