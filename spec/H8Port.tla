------------------------------- MODULE H8Port -------------------------------
(***************************************************************************)
(* I/O ports 1..B as data latch + direction register + external pins       *)
(* (property C16).  One port is a record                                   *)
(*    [ddr, latch, written, pin]                                           *)
(* latch = the value the CPU last wrote to DR; `written` is FALSE until    *)
(* the first such write: C16 speaks of "the value the CPU last wrote", so  *)
(* before any CPU write the output bits of DR and the announcements are    *)
(* not constrained (input bits always are).                                *)
(***************************************************************************)
EXTENDS H8Map

Ports == 1..11
PortInit == [ddr |-> 0, latch |-> 0, written |-> FALSE, pin |-> 0]

PWriteDDR(p, v) == [p EXCEPT !.ddr = v]
PWriteDR(p, v)  == [p EXCEPT !.latch = v, !.written = TRUE]
PExtIn(p, v)    == [p EXCEPT !.pin = v]

Inv8(x) == 255 - x
(* what reading DR returns / what the port drives *)
ReadDR(p) == (p.latch & p.ddr) | (p.pin & Inv8(p.ddr))
OutVal(p) == p.latch & p.ddr

(* a logged DR read-back rb is admissible *)
ReadOK(p, rb) ==
  IF p.written THEN rb = ReadDR(p)
  ELSE (rb & Inv8(p.ddr)) = (p.pin & Inv8(p.ddr))

(* bit-level (declarative) reading of the same: per bit, output -> latch bit, input -> pin bit *)
ReadBitwise(p, rb) ==
  \A i \in 0..7 : IF Bit(p.ddr, i) = 1 THEN (p.written => Bit(rb, i) = Bit(p.latch, i))
                  ELSE Bit(rb, i) = Bit(p.pin, i)

(***************************************************************************)
(* message text "ioport:<port hex>:<value hex>:<states decimal>" as bytes  *)
(***************************************************************************)
HexDigit(d) == IF d < 10 THEN 48 + d ELSE 87 + d            \* lower case
RECURSIVE HexStr(_)
HexStr(n) == IF n < 16 THEN <<HexDigit(n)>> ELSE HexStr(n \div 16) \o <<HexDigit(n % 16)>>
RECURSIVE DecStr(_)
DecStr(n) == IF n < 10 THEN <<48 + n>> ELSE DecStr(n \div 10) \o <<48 + (n % 10)>>
IoportPrefix == <<105, 111, 112, 111, 114, 116, 58>>         \* "ioport:"
IoportMsg(port, val, sum) == IoportPrefix \o HexStr(port) \o <<58>> \o HexStr(val) \o <<58>> \o DecStr(sum)

(***************************************************************************)
(* announcements made during one operation on port number n (state before  *)
(* p, after q), at time stamp sum: whenever the driven value changed there *)
(* is a message; every message names this port and this time stamp; the    *)
(* LAST one carries the new driven value.  Nothing is required while the   *)
(* latch is unknown.                                                       *)
(***************************************************************************)
AnnounceOK(n, p, q, msgs, sum) ==
  IF ~q.written THEN TRUE
  ELSE /\ ((p.written /\ OutVal(p) # OutVal(q)) => Len(msgs) > 0)
       /\ (Len(msgs) > 0 => msgs[Len(msgs)] = IoportMsg(n, OutVal(q), sum))
       /\ \A i \in 1..Len(msgs) : \E v \in 0..255 : msgs[i] = IoportMsg(n, v, sum)
=============================================================================
