SPECIFICATION Spec
CONSTANTS
  Depth = 2
  Vals = {165, 65535}
INVARIANT Inv
CHECK_DEADLOCK FALSE
