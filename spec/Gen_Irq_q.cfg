SPECIFICATION Spec
CONSTANTS
  Slots = {1, 2, 3}
  MaxReq = 3
  Depth = 7
  Emit = TRUE
  K = 4
  HLen = 3
CONSTRAINT Bound
INVARIANT EmitInv
CHECK_DEADLOCK FALSE
