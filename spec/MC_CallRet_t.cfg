SPECIFICATION Spec
CONSTANTS
  Forms = {1, 2, 3, 4, 5}
  MaxDepth = 4
  MaxLen = 8
  Emit = TRUE
INVARIANT InvResume
INVARIANT InvFrames
INVARIANT InvSP
INVARIANT EmitInv
CHECK_DEADLOCK FALSE
