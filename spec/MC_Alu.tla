------------------------------- MODULE MC_Alu -------------------------------
(***************************************************************************)
(* Design-level cross-check of the arithmetic / shift primitives used by   *)
(* the operational semantics (H8Exec: AddV, SubV, ShlV, ShrV, INC/DEC/NEG  *)
(* flag rules) against an INDEPENDENT bit-level formulation (ripple carry, *)
(* bit i of the result as a function of the operand bits) - properties     *)
(* C02 and C03.  8-bit operands exhaustively (grid in the quick config),   *)
(* 16/32-bit operands over carry-chain boundary sets.                      *)
(***************************************************************************)
EXTENDS H8Base
CONSTANTS B8, B16, B32H        \* 8-bit values, 16-bit values, halves used to build 32-bit values

VARIABLE c      \* <<group, sz, a, b, cin>>
Vals(sz) == IF sz = 1 THEN {<<0, x>> : x \in B8} ELSE IF sz = 2 THEN {<<0, x>> : x \in B16} ELSE {<<h, l>> : h \in B32H, l \in B32H}
Binary == {"add", "sub"}
Unary == {"shl", "shr", "incdec", "neg"}
(* seeds <<"seed", group, sz, a>> expand into their cases as successors (so that all TLC workers share them) *)
Init == c \in
               UNION {{<<"seed", g, sz, a>> : g \in Binary \cup Unary, a \in Vals(sz)} : sz \in {1, 2, 4}}
Next == /\ c[1] = "seed"
        /\ IF c[2] \in Binary THEN c' \in {<<c[2], c[3], c[4], b, ci>> : b \in Vals(c[3]), ci \in {0, 1}}
           ELSE c' \in {<<c[2], c[3], c[4], <<0, 0>>, ci>> : ci \in {0, 1}}
Spec == Init /\ [][Next]_c

W(sz) == 8 * sz
AddOK(sz, a, b, ci) ==
  LET q == AddV(sz, a, b, ci)  r == RippleAdd(sz, a, b, ci)
  IN BitsOf(sz, q.r) = r.bits /\ q.c = r.c /\ q.h = r.h /\ q.v = r.v
     /\ (sz < 4 => q.r[2] = (a[2] + b[2] + ci) % (2 ^ W(sz)) /\ q.c = (a[2] + b[2] + ci) \div (2 ^ W(sz)))
SubOK(sz, a, b, bi) ==
  LET q == SubV(sz, a, b, bi)  r == RippleSub(sz, a, b, bi)
  IN BitsOf(sz, q.r) = r.bits /\ q.c = r.c /\ q.h = r.h /\ q.v = r.v
     /\ (sz < 4 => q.r[2] = (a[2] - b[2] - bi + 2 ^ W(sz)) % (2 ^ W(sz)) /\ q.c = (IF a[2] - b[2] - bi < 0 THEN 1 ELSE 0))
ShlOK(sz, a, ci) ==
  LET q == ShlV(sz, a, ci)
  IN /\ \A i \in 1..(W(sz) - 1) : VBit(q.r, i) = VBit(a, i - 1)
     /\ VBit(q.r, 0) = ci /\ q.c = VBit(a, W(sz) - 1)
     /\ (sz < 4 => q.r[1] = 0 /\ q.r[2] < 2 ^ W(sz))
ShrOK(sz, a, ci) ==
  LET q == ShrV(sz, a, ci)
  IN /\ \A i \in 0..(W(sz) - 2) : VBit(q.r, i) = VBit(a, i + 1)
     /\ VBit(q.r, W(sz) - 1) = ci /\ q.c = VBit(a, 0)
(* INC/DEC #1,#2: V iff the sign flips in the direction of the operation; NEG = 0 - x *)
IncDecOK(sz, a) ==
  \A k \in {1, 2} :
    LET i == AddV(sz, a, V(k), 0)   d == SubV(sz, a, V(k), 0)
    IN /\ i.v = B2N(Sg(sz, a) = 0 /\ Sg(sz, i.r) = 1)
       /\ d.v = B2N(Sg(sz, a) = 1 /\ Sg(sz, d.r) = 0)
NegOK(sz, a) ==
  LET q == SubV(sz, VZero, a, 0)
  IN /\ AddV(sz, q.r, a, 0).r = VZero              \* x + (-x) = 0
     /\ q.c = B2N(~IsZeroV(a)) /\ q.v = B2N(Sg(sz, a) = 1 /\ Sg(sz, q.r) = 1)
Inv ==
  CASE c[1] = "seed" -> TRUE
    [] c[1] = "add" -> AddOK(c[2], c[3], c[4], c[5])
    [] c[1] = "sub" -> SubOK(c[2], c[3], c[4], c[5])
    [] c[1] = "shl" -> ShlOK(c[2], c[3], c[5])
    [] c[1] = "shr" -> ShrOK(c[2], c[3], c[5])
    [] c[1] = "incdec" -> IncDecOK(c[2], c[3])
    [] OTHER -> NegOK(c[2], c[3])
=============================================================================
