------------------------------ MODULE IntcLemma ------------------------------
(***************************************************************************)
(* Unbounded lemma behind property C10, for Apalache: for ANY number of    *)
(* requests on the 63 vector slots (the pending multiset is a counter per  *)
(* slot, not bounded), any handler length, and a main program that may set *)
(* and clear the I mask itself at any boundary, the delivery rule          *)
(*   "at an instruction boundary a pending request is taken iff I = 0;     *)
(*    entry pushes the context and sets I; RTE restores the saved I"       *)
(* keeps, as an INDUCTIVE invariant: entered + pending = requested per     *)
(* vector (nothing lost, nothing duplicated, own vector), acceptance never *)
(* happens while masked, handlers do not nest and return with I clear (the *)
(* value saved at entry), and the main program's own counter moves only in *)
(* main context.  (MC_Intc checks the same with TLC on 3 slots / <= 4      *)
(* requests together with liveness; MC_System composes it with the timer.) *)
(***************************************************************************)
EXTENDS Integers
CONSTANT
  \* @type: Int;
  HLen
VARIABLES
  \* @type: Int;
  I,
  \* @type: Int -> Int;
  pend,
  \* @type: Int -> Int;
  reqd,
  \* @type: Int -> Int;
  entd,
  \* @type: Int;
  depth,
  \* @type: Int;
  savedI,
  \* @type: Int;
  hpc,
  \* @type: Int;
  mainSteps,
  \* @type: Int;
  handlerSteps,
  \* @type: Int;
  boundaries,
  \* @type: Bool;
  accMasked

Slots == 1..63
ConstInit == HLen \in 1..1000

Init ==
  /\ I \in {0, 1} /\ pend = [v \in Slots |-> 0] /\ reqd = [v \in Slots |-> 0] /\ entd = [v \in Slots |-> 0]
  /\ depth = 0 /\ savedI = 0 /\ hpc = 0 /\ mainSteps = 0 /\ handlerSteps = 0 /\ boundaries = 0 /\ accMasked = FALSE

Request(v) ==
  /\ pend' = [pend EXCEPT ![v] = @ + 1] /\ reqd' = [reqd EXCEPT ![v] = @ + 1]
  /\ UNCHANGED <<I, entd, depth, savedI, hpc, mainSteps, handlerSteps, boundaries, accMasked>>

NonePending == \A v \in Slots : pend[v] = 0

(* a boundary at which nothing is taken, followed by one instruction of the current context *)
Plain(newI) ==
  /\ (NonePending \/ I = 1)
  /\ boundaries' = boundaries + 1
  /\ IF depth = 0
     THEN /\ mainSteps' = mainSteps + 1 /\ I' = newI        \* main may be ORC / ANDC / LDC
          /\ UNCHANGED <<depth, savedI, hpc, handlerSteps>>
     ELSE IF hpc < HLen
          THEN /\ hpc' = hpc + 1 /\ handlerSteps' = handlerSteps + 1
               /\ UNCHANGED <<I, depth, savedI, mainSteps>>
          ELSE (* RTE *)
               /\ I' = savedI /\ depth' = 0 /\ hpc' = 0 /\ handlerSteps' = handlerSteps + 1
               /\ UNCHANGED <<savedI, mainSteps>>
  /\ UNCHANGED <<pend, reqd, entd, accMasked>>

(* a boundary at which request v is taken: context pushed, I set, then the handler's first instruction *)
Accept(v) ==
  /\ pend[v] > 0 /\ I = 0
  /\ pend' = [pend EXCEPT ![v] = @ - 1] /\ entd' = [entd EXCEPT ![v] = @ + 1]
  /\ savedI' = I /\ I' = 1 /\ depth' = depth + 1 /\ hpc' = 1
  /\ handlerSteps' = handlerSteps + 1 /\ boundaries' = boundaries + 1
  /\ accMasked' = (accMasked \/ I = 1)
  /\ UNCHANGED <<reqd, mainSteps>>

Next ==
  \/ \E v \in Slots : Request(v)
  \/ \E b \in {0, 1} : Plain(b)
  \/ \E v \in Slots : Accept(v)

IndInv ==
  /\ I \in {0, 1} /\ savedI \in {0, 1} /\ depth \in {0, 1} /\ hpc >= 0 /\ hpc <= HLen
  /\ \A v \in Slots : pend[v] >= 0 /\ entd[v] >= 0 /\ reqd[v] >= 0
  /\ \A v \in Slots : entd[v] + pend[v] = reqd[v]                 \* exactly once, own vector
  /\ ~accMasked                                                    \* never accepted while masked
  /\ (depth = 1 => I = 1 /\ savedI = 0 /\ hpc >= 1)                \* handlers run masked and return unmasked
  /\ (depth = 0 => hpc = 0)
  /\ mainSteps >= 0 /\ handlerSteps >= 0
  /\ boundaries = mainSteps + handlerSteps                         \* one instruction per boundary, main or handler
IndInit ==
  /\ I \in Int /\ savedI \in Int /\ depth \in Int /\ hpc \in Int /\ mainSteps \in Int /\ handlerSteps \in Int
  /\ boundaries \in Int /\ accMasked \in BOOLEAN
  /\ pend \in [Slots -> Int] /\ reqd \in [Slots -> Int] /\ entd \in [Slots -> Int]
  /\ IndInv
=============================================================================
