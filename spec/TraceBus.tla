------------------------------- MODULE TraceBus -------------------------------
(***************************************************************************)
(* Trace validation of the bus-level components: address decoding and      *)
(* plain storage (C09), I/O ports (C16), 8-bit timer (C17).  Events are    *)
(* THREADED: the specification state (memory overlay, port records, timer) *)
(* is carried from event to event within one history (`reset` starts a new *)
(* one).  As in TraceH8, a mismatch is reported and validation goes on     *)
(* from the logged state.                                                  *)
(***************************************************************************)
EXTENDS H8Port, H8Timer, Json, IOUtils, SequencesExt

Rec  == ndJsonDeserialize(IOEnv.TRACE)
PROP == IOEnv.PROP
NRec == Len(Rec)

VARIABLES l, cov,
          ports,    \* [1..11 -> port record], the INTENDED state
          odr,      \* [1..11 -> last observed DR read-back] (used only by the named deviation)
          odd,      \* [1..11 -> last observed DDR read-back]
          bm,       \* memory overlay of the history
          vTm,       \* timer trace state (see H8Timer)
          lastsum   \* last time stamp seen in an announcement check
vars == <<l, cov, ports, odr, odd, bm, vTm, lastsum>>

AddrOf(e) == IF e.a[1] < 256 THEN e.a[1] * P16 + e.a[2] ELSE -1
Acc(a) == a >= 0 /\ Accessible(a)

Rep(kind, e, what, extra) ==
  PrintT(kind \o " " \o ToJson([id |-> e.id, prop |-> PROP, row |-> what, exp |-> "ok", got |-> e.res, fields |-> extra, dev |-> IF kind = "DEVIATION" THEN extra[1] ELSE ""]))

DiffAddrs(e) == {e.wr[i][1] : i \in 1..Len(e.wr)}
OthersSame(e, n) == \A k \in Ports \ {n} : e.dr[k] = odr[k] /\ e.dd[k] = odd[k]
AllSame(e) == \A k \in Ports : e.dr[k] = odr[k] /\ e.dd[k] = odd[k]

(***************************************************************************)
(* named deviation (known finding, C16): the emulator keeps no latch - DR  *)
(* holds the merged byte.  Exact relation on OBSERVED values:              *)
(*   write DR v  (v # observed dr): dr' = (v & ddr) | (pin & ~ddr), one    *)
(*                message with v & ddr;   (v = observed dr): nothing       *)
(*   write DDR d (d # ddr): dr' = (dr & d) | (pin & ~d), one message with  *)
(*                dr' & d;                (d = ddr): nothing               *)
(*   external v: dr' = (dr & ddr) | (v & ~ddr), no message                 *)
(***************************************************************************)
DevPort(e, n, op, v) ==
  LET p == ports[n]
      d == odr[n]
  IN CASE op = "dr" ->
            IF v = d THEN e.dr[n] = d /\ e.msgs = <<>>
            ELSE e.dr[n] = ((v & p.ddr) | (p.pin & Inv8(p.ddr))) /\ e.msgs = <<IoportMsg(n, v & p.ddr, e.sum)>>
       [] op = "ddr" ->
            IF v = p.ddr THEN e.dr[n] = d /\ e.msgs = <<>>
            ELSE LET nd == (d & v) | (p.pin & Inv8(v)) IN e.dr[n] = nd /\ e.msgs = <<IoportMsg(n, nd & v, e.sum)>>
       [] OTHER ->
            e.dr[n] = ((d & p.ddr) | (v & Inv8(p.ddr))) /\ e.msgs = <<>>

(* one operation on port n: q = intended state after it *)
PortOpOK(e, n, q) ==
  /\ e.res = "ok"
  /\ ReadOK(q, e.dr[n])
  /\ AnnounceOK(n, ports[n], q, e.msgs, e.sum)
  /\ OthersSame(e, n)
  /\ DiffAddrs(e) \subseteq {DdrLo + n - 1, DrLo + n - 1}
  /\ e.sum >= lastsum
PortStructOK(e, n) ==      \* what C09 requires of a port-register write: it succeeds and touches nothing else
  /\ e.res = "ok" /\ OthersSame(e, n) /\ DiffAddrs(e) \subseteq {DdrLo + n - 1, DrLo + n - 1}

Observe(e) == /\ odr' = [k \in Ports |-> e.dr[k]] /\ odd' = [k \in Ports |-> e.dd[k]]

PortEvent(e, n, op, v) ==
  LET q == IF op = "dr" THEN PWriteDR(ports[n], v) ELSE IF op = "ddr" THEN PWriteDDR(ports[n], v) ELSE PExtIn(ports[n], v)
      ok == IF PROP = "C09" THEN PortStructOK(e, n) ELSE PortOpOK(e, n, q)
      dev == ~ok /\ PROP # "C09" /\ e.res = "ok" /\ DevPort(e, n, op, v) /\ OthersSame(e, n)
             /\ DiffAddrs(e) \subseteq {DdrLo + n - 1, DrLo + n - 1} /\ e.sum >= lastsum
  IN /\ IF ok THEN TRUE
        ELSE IF dev THEN Rep("DEVIATION", e, "port " \o op, <<"Port_DR_has_no_latch">>)
        ELSE Rep("MISMATCH", e, "port " \o op, <<"dr/msgs">>)
     /\ ports' = [ports EXCEPT ![n] = q]
     /\ Observe(e)
     /\ lastsum' = IF e.sum > lastsum THEN e.sum ELSE lastsum
     /\ cov' = cov \cup {<<"port", op>>}
     /\ UNCHANGED <<bm, vTm>>

(***************************************************************************)
(* bus write / read                                                         *)
(***************************************************************************)
BusWrite(e) ==
  LET a == AddrOf(e)
  IN IF ~Acc(a) THEN
       /\ IF e.res = "err" /\ e.wr = <<>> /\ e.msgs = <<>> /\ AllSame(e) THEN TRUE
          ELSE Rep("MISMATCH", e, "write inaccessible", <<"res/wr">>)
       /\ Observe(e) /\ cov' = cov \cup {<<"bw", "inaccessible">>}
       /\ UNCHANGED <<ports, bm, vTm, lastsum>>
     ELSE IF IsDdr(a) THEN PortEvent(e, a - DdrLo + 1, "ddr", e.v)
     ELSE IF IsDr(a) THEN PortEvent(e, a - DrLo + 1, "dr", e.v)
     ELSE
       LET old == Rd(bm, a)
           expwr == IF old = e.v THEN <<>> ELSE << <<a, e.v>> >>
           tw == TimerWrite(vTm, a, e.v, bm)        \* timer bookkeeping of the trace state (C17)
       IN /\ IF e.res = "ok" /\ e.wr = expwr /\ e.msgs = <<>> /\ AllSame(e) THEN TRUE
             ELSE Rep("MISMATCH", e, "write plain", <<"res/wr">>)
          /\ bm' = WrAll(bm, << <<a, e.v>> >>)
          /\ vTm' = tw
          /\ Observe(e) /\ cov' = cov \cup {<<"bw", RegionOf(a)>>}
          /\ UNCHANGED <<ports, lastsum>>

BusRead(e) ==
  LET a == AddrOf(e)
      ok == IF ~Acc(a) THEN e.res = "err"
            ELSE IF IsDr(a) THEN e.res = "ok" /\ (PROP = "C09" \/ ReadOK(ports[a - DrLo + 1], e.v) \/ e.v = odr[a - DrLo + 1])
            ELSE IF IsDdr(a) THEN e.res = "ok"
            ELSE e.res = "ok" /\ e.v = Rd(bm, a)
  IN /\ IF ok THEN TRUE ELSE Rep("MISMATCH", e, "read", <<"res/v">>)
     /\ cov' = cov \cup {<<"br", IF Acc(a) THEN RegionOf(a) ELSE "inaccessible">>}
     /\ UNCHANGED <<ports, odr, odd, bm, vTm, lastsum>>

PinEvent(e) ==
  IF e.port \in Ports THEN PortEvent(e, e.port, "pin", e.v)
  ELSE /\ IF e.res = "ok" /\ e.wr = <<>> /\ e.msgs = <<>> /\ AllSame(e) THEN TRUE
          ELSE Rep("MISMATCH", e, "external input to a non-existent port", <<"wr">>)
       /\ Observe(e) /\ cov' = cov \cup {<<"pin", "invalid">>}
       /\ UNCHANGED <<ports, bm, vTm, lastsum>>

ResetEvent(e) ==
  /\ ports' = [k \in Ports |-> PortInit]
  /\ odr' = [k \in Ports |-> 0] /\ odd' = [k \in Ports |-> 0]
  /\ bm' = MemOf(e.bg, <<>>)
  /\ vTm' = TimerTraceInit
  /\ lastsum' = 0
  /\ UNCHANGED cov

(***************************************************************************)
(* exhaustive scans (C09): maximal intervals of equal outcome over all      *)
(* 2^24 addresses, as observed through the real Bus::read / Bus::write      *)
(***************************************************************************)
ExpReadIvals ==
  << <<VecLo, VecHi, "ok">>, <<VecHi + 1, DramLo - 1, "err">>, <<DramLo, DramHi, "ok">>, <<DramHi + 1, Io1Lo - 1, "err">>,
     <<Io1Lo, Io1Hi, "ok">>, <<Io1Hi + 1, RamLo - 1, "err">>, <<RamLo, Io2Hi, "ok">>, <<Io2Hi + 1, A24 - 1, "err">> >>
(* write-tag / read-back: "same" where the value read equals the value written to that address *)
ExpStoreIvals ==
  << <<VecLo, VecHi, "same">>, <<VecHi + 1, DramLo - 1, "err">>, <<DramLo, DramHi, "same">>, <<DramHi + 1, Io1Lo - 1, "err">>,
     <<Io1Lo, DdrHi, "port">>, <<DdrHi + 1, Io1Hi, "same">>, <<Io1Hi + 1, RamLo - 1, "err">>, <<RamLo, DrLo - 1, "same">>,
     <<DrLo, DrHi, "port">>, <<DrHi + 1, Io2Hi, "same">>, <<Io2Hi + 1, A24 - 1, "err">> >>
ScanEvent(e) ==
  LET exp == IF e.what = "read" THEN ExpReadIvals ELSE ExpStoreIvals
      ok == e.iv = exp /\ \A i \in 1..Len(e.hi) : e.hi[i][3] = "err"
  IN /\ IF ok THEN TRUE ELSE Rep("MISMATCH", e, "scan " \o e.what, <<ToString(e.iv)>>)
     /\ cov' = cov \cup {<<"scan", e.what>>}
     /\ UNCHANGED <<ports, odr, odd, bm, vTm, lastsum>>

(***************************************************************************)
(* timer events (C17), see H8Timer                                          *)
(***************************************************************************)
TickEvent(e) ==
  LET r == TimerTick(vTm, e, bm)
  IN /\ IF r.ok THEN TRUE
        ELSE IF r.dev # "" THEN Rep("DEVIATION", e, "timer tick", <<r.dev>>)
        ELSE Rep("MISMATCH", e, "timer tick", <<r.why>>)
     /\ vTm' = r.tm
     /\ bm' = r.bm
     /\ cov' = cov \cup {<<"tick", r.cls>>}
     /\ UNCHANGED <<ports, odr, odd, lastsum>>

Consume ==
  /\ l <= NRec
  /\ LET e == Rec[l]
     IN CASE e.k = "reset" -> ResetEvent(e)
          [] e.k = "bw" -> BusWrite(e)
          [] e.k = "br" -> BusRead(e)
          [] e.k = "pin" -> PinEvent(e)
          [] e.k = "scan" -> ScanEvent(e)
          [] e.k = "tick" -> TickEvent(e)
          [] OTHER -> PrintT("MISMATCH " \o ToJson([id |-> l, prop |-> PROP, row |-> "unknown-event-kind"])) /\ UNCHANGED <<cov, ports, odr, odd, bm, vTm, lastsum>>
  /\ l' = l + 1

Finish ==
  /\ l = NRec + 1
  /\ PrintT("COVERAGE " \o ToJson([rows |-> SetToSeq(cov)]))
  /\ PrintT("DONE " \o ToString(NRec))
  /\ l' = l + 1
  /\ UNCHANGED <<cov, ports, odr, odd, bm, vTm, lastsum>>

Init == /\ l = 1 /\ cov = {}
        /\ ports = [k \in Ports |-> PortInit] /\ odr = [k \in Ports |-> 0] /\ odd = [k \in Ports |-> 0]
        /\ bm = MemOf("zero", <<>>) /\ vTm = TimerTraceInit /\ lastsum = 0
Next == Consume \/ Finish
Spec == Init /\ [][Next]_vars
=============================================================================
