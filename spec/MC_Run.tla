------------------------------- MODULE MC_Run -------------------------------
(***************************************************************************)
(* Design-level model of Cpu::run (property C13; the control-line part of  *)
(* C18), structured like the implementation's loop, one action per         *)
(* section of an iteration:                                                *)
(*   Poll      drain the socket inbox and apply the control lines          *)
(*             (cmd:pause / cmd:start / cmd:stop / other = ignored)        *)
(*   Iterate   (not paused) accept an interrupt if one is due, execute the *)
(*             instruction at pc: on failure return the error, otherwise   *)
(*             charge its states to the total, to the sync residue and to  *)
(*             the peripherals, emit sync when the residue reaches the     *)
(*             interval, and finish when pc = exit address                 *)
(*   HostDelay the host being slow or fast (sleeping, scheduling): changes *)
(*             NOTHING of the guest - it only interleaves                  *)
(*   Arrive    the controller sends a line                                 *)
(* The guest program is abstract: a sequence of instructions, each either  *)
(* [c |-> charge, t |-> next pc] or "fail"; the charge of an instruction   *)
(* is below the interval (the emulator's charges are <= 3 x 255 x ... far  *)
(* below 2,000,000).                                                       *)
(*                                                                         *)
(* Checked: total = sum of the charges of the executed instructions in     *)
(* program order; peripherals saw exactly the same amount; the number of   *)
(* sync messages is floor(total / T) at every instruction boundary, each   *)
(* carrying the total at which it was emitted; a failing instruction ends  *)
(* the run with an error and nothing runs afterwards; the run ends in      *)
(* success exactly when pc = exit; the final observable state is a         *)
(* function of the program alone (every interleaving of HostDelay / empty  *)
(* polls yields the same value: Determinism); under fairness an            *)
(* un-paused run of a terminating program terminates.                      *)
(***************************************************************************)
EXTENDS Integers, Sequences, FiniteSets, TLC
CONSTANTS T,            \* sync interval (scaled down)
          Progs,        \* index set of the abstract programs below
          MaxLines,     \* control lines the controller may send
          MaxDelay      \* HostDelay steps per behaviour (bounds the interleavings)

Fail == [c |-> 0, t |-> -1]
I(c, t) == [c |-> c, t |-> t]
(* pc = 1-based index; exit address = Len + 1 *)
Prog(k) ==
  CASE k = 1 -> << I(3, 2), I(4, 3), I(2, 4), I(5, 5), I(1, 6) >>                       \* straight line, crosses T twice
    [] k = 2 -> << I(6, 2), I(6, 3), I(6, 1) >>                                          \* endless loop (exit unreachable)
    [] k = 3 -> << I(2, 3), Fail, I(5, 4), I(4, 2) >>                                    \* runs 1,3,4 then fails at 2
    [] k = 4 -> << I(7, 2), I(7, 3), I(7, 4), I(7, 5) >>                                 \* residue arithmetic with charge = T-1 (T = 8)
    [] OTHER -> << I(1, 3), I(2, 4), I(3, 2), I(4, 5) >>                                 \* jumps: 1,3,2,4, exit
ExitOf(k) == Len(Prog(k)) + 1

VARIABLES k, pc, total, resid, periph, syncs, executed, paused, inbox, sent, status, delays, loopcnt
vars == <<k, pc, total, resid, periph, syncs, executed, paused, inbox, sent, status, delays, loopcnt>>
Lines == {"pause", "start", "stop", "junk"}

Init == /\ k \in Progs /\ pc = 1 /\ total = 0 /\ resid = 0 /\ periph = 0 /\ syncs = <<>> /\ executed = <<>>
        /\ paused = FALSE /\ inbox = <<>> /\ sent = 0 /\ status = "running" /\ delays = 0 /\ loopcnt = 0

(* apply the whole batch; "stop" returns at once and leaves the rest of the batch unprocessed *)
RECURSIVE Apply(_, _)
Apply(ls, p) == IF ls = <<>> THEN <<p, FALSE>>
                ELSE IF Head(ls) = "stop" THEN <<p, TRUE>>
                ELSE Apply(Tail(ls), IF Head(ls) = "pause" THEN TRUE ELSE IF Head(ls) = "start" THEN FALSE ELSE p)

(* one pass of the loop: poll, then (unless paused / stopped) one instruction *)
Iteration ==
  /\ status = "running"
  /\ LET r == Apply(inbox, paused)
     IN /\ inbox' = <<>>
        /\ paused' = r[1]
        /\ IF r[2] THEN status' = "stopped" /\ UNCHANGED <<pc, total, resid, periph, syncs, executed, loopcnt>>
           ELSE IF r[1] THEN UNCHANGED <<pc, total, resid, periph, syncs, executed, status, loopcnt>>
           ELSE LET ins == Prog(k)[pc]
                IN IF ins.t = -1 THEN status' = "failed" /\ UNCHANGED <<pc, total, resid, periph, syncs, executed, loopcnt>>
                   ELSE LET tot == total + ins.c
                            rs  == resid + ins.c
                        IN /\ total' = tot
                           /\ periph' = periph + ins.c
                           /\ IF rs >= T THEN syncs' = Append(syncs, tot) /\ resid' = rs - T
                              ELSE syncs' = syncs /\ resid' = rs
                           /\ executed' = Append(executed, pc)
                           /\ pc' = ins.t
                           /\ loopcnt' = loopcnt + 1
                           /\ status' = IF ins.t = ExitOf(k) THEN "exited" ELSE "running"
  /\ UNCHANGED <<k, sent, delays>>
HostDelay == status = "running" /\ delays < MaxDelay /\ delays' = delays + 1
             /\ UNCHANGED <<k, pc, total, resid, periph, syncs, executed, paused, inbox, sent, status, loopcnt>>
Arrive(l) == status = "running" /\ sent < MaxLines /\ inbox' = Append(inbox, l) /\ sent' = sent + 1
             /\ UNCHANGED <<k, pc, total, resid, periph, syncs, executed, paused, status, delays, loopcnt>>
Next == Iteration \/ HostDelay \/ \E l \in Lines : Arrive(l)
Spec == Init /\ [][Next]_vars /\ WF_vars(Iteration)
Bound == loopcnt <= 9

(* ---- invariants ---------------------------------------------------------- *)
RECURSIVE SumCharges(_, _)
SumCharges(p, es) == IF es = <<>> THEN 0 ELSE Prog(p)[Head(es)].c + SumCharges(p, Tail(es))
(* the executed sequence is the program's own control flow from pc = 1 *)
InOrder == /\ (executed # <<>> => executed[1] = 1)
           /\ \A i \in 1..(Len(executed) - 1) : Prog(k)[executed[i]].t = executed[i + 1]
           /\ (executed # <<>> => pc = Prog(k)[executed[Len(executed)]].t)
           /\ \A i \in 1..Len(executed) : Prog(k)[executed[i]].t # -1
OneTimeBase == total = SumCharges(k, executed) /\ periph = total /\ resid = total % T
SyncOnce == /\ Len(syncs) = total \div T
            /\ \A i \in 1..Len(syncs) : syncs[i] >= i * T /\ syncs[i] < i * T + T           \* emitted when the total passed the i-th multiple
            /\ \A i \in 1..(Len(syncs) - 1) : syncs[i] < syncs[i + 1]
Outcome == /\ (status = "exited" <=> (executed # <<>> /\ pc = ExitOf(k)))
           /\ (status = "failed" => pc \in 1..Len(Prog(k)) /\ Prog(k)[pc].t = -1)
           /\ (status = "running" => pc \in 1..Len(Prog(k)))
(* determinism: whatever the interleaving of host delays, polls and (ignored / pausing) lines, a run    *)
(* that has executed n instructions is in THE state of the reference run after n instructions           *)
RECURSIVE Ref(_, _, _)
Ref(p, n, st) == IF n = 0 \/ st[1] = ExitOf(p) \/ Prog(p)[st[1]].t = -1 THEN st
                 ELSE Ref(p, n - 1, <<Prog(p)[st[1]].t, st[2] + Prog(p)[st[1]].c>>)
Determinism == <<pc, total>> = Ref(k, Len(executed), <<1, 0>>) /\ Len(syncs) = Ref(k, Len(executed), <<1, 0>>)[2] \div T
Inv == InOrder /\ OneTimeBase /\ SyncOnce /\ Outcome /\ Determinism
(* terminal states stay terminal: nothing runs after an error, a stop or the exit *)
Terminal == [][status # "running" => UNCHANGED <<pc, total, resid, periph, syncs, executed, status>>]_vars
(* liveness: if the controller never pauses/stops (MaxLines = 0 configuration), terminating programs terminate *)
Terminates == (k \in {1, 3, 4, 5}) => <>(status # "running")
=============================================================================
