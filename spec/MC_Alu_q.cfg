SPECIFICATION Spec
CONSTANTS
  B8 = {0, 1, 2, 7, 8, 15, 16, 17, 31, 32, 63, 64, 65, 100, 126, 127, 128, 129, 130, 143, 144, 170, 192, 200, 239, 240, 241, 250, 253, 254, 255, 85}
  B16 = {0, 1, 255, 256, 4095, 4096, 32767, 32768, 32769, 61440, 65534, 65535}
  B32H = {0, 1, 4095, 4096, 32767, 32768, 65535}
INVARIANT Inv
CHECK_DEADLOCK FALSE
