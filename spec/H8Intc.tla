------------------------------- MODULE H8Intc -------------------------------
(***************************************************************************)
(* Interrupt controller (property C10): pending requests and acceptance.   *)
(* The pending requests are a multiset kept as a sequence.  WHICH pending  *)
(* request is taken is left open (C10 fixes no priority order; the         *)
(* emulator happens to use FIFO) - the trace binds the logged vector.      *)
(***************************************************************************)
EXTENDS H8Exec

Request(pend, v) == Append(pend, v)
IsPending(pend, v) == \E i \in 1..Len(pend) : pend[i] = v
(* remove one occurrence of v *)
RemoveOne(pend, v) ==
  LET i == CHOOSE j \in 1..Len(pend) : pend[j] = v /\ \A k \in 1..(j - 1) : pend[k] # v
  IN [k \in 1..(Len(pend) - 1) |-> IF k < i THEN pend[k] ELSE pend[k + 1]]
IFlag(s) == Bit(s.ccr, 7)
(* acceptance of v at an instruction boundary is enabled iff v is pending and the I bit is clear *)
CanAccept(s, pend, v) == IsPending(pend, v) /\ IFlag(s) = 0
=============================================================================
