------------------------------- MODULE MC_Bus -------------------------------
(***************************************************************************)
(* Design-level model for property C09 and for the specification's own     *)
(* memory representation (H8Map: background + poke runs + overlay), on     *)
(* which every trace validation relies.                                    *)
(* A reference memory ref (a plain function on the probe addresses) is     *)
(* updated byte by byte next to the H8Map memory; stores of 1/2/4 bytes    *)
(* at region edges, seams, holes and above 2^24.                           *)
(*   InvMap     accessibility = the five intervals of the property, stated *)
(*              in hexadecimal digits; regions disjoint and inside 24 bits *)
(*   InvRef     every probe address reads what the reference holds         *)
(*              (last write wins, no write changes another location,       *)
(*              failed stores change nothing)                              *)
(*   InvEndian  word / long reads are the big-endian composition           *)
(***************************************************************************)
EXTENDS H8Map, Sequences
CONSTANTS Depth, Vals

VARIABLES mem, ref, n
Hex(s) == LET d(ch) == CHOOSE i \in 0..15 : <<"0","1","2","3","4","5","6","7","8","9","A","B","C","D","E","F">>[i + 1] = ch
              RECURSIVE H(_, _)
              H(i, acc) == IF i > Len(s) THEN acc ELSE H(i + 1, acc * 16 + d(s[i]))
          IN H(1, 0)
(* the property's text *)
Intervals == << <<Hex(<<"0","0","0","0","0","0">>), Hex(<<"0","0","0","0","F","F">>)>>,
                <<Hex(<<"4","0","0","0","0","0">>), Hex(<<"5","F","F","F","F","F">>)>>,
                <<Hex(<<"F","E","E","0","0","0">>), Hex(<<"F","E","E","0","F","F">>)>>,
                <<Hex(<<"F","F","B","F","2","0">>), Hex(<<"F","F","F","F","1","F">>)>>,
                <<Hex(<<"F","F","F","F","2","0">>), Hex(<<"F","F","F","F","E","9">>)>> >>
InText(a) == \E i \in 1..5 : a >= Intervals[i][1] /\ a <= Intervals[i][2]
Edges == UNION {{Intervals[i][1] - 1, Intervals[i][1], Intervals[i][1] + 1, Intervals[i][2] - 1, Intervals[i][2], Intervals[i][2] + 1} : i \in 1..5}
Probes == (Edges \cup {256 + 4194304, 16777214, 16777215, 16777216, 16777217, 16777216 + 4194304, 2097152}) \ {-1}
Poke == << <<RamLo - 2, <<1, 2, 3, 4>>>>, <<DramHi - 1, <<5, 6, 7>>>>, <<254, <<8, 9, 10>>>> >>      \* pokes straddling edges
(* a harness poke only lands on accessible bytes *)
InitRef(a) == IF ~InText(a) THEN -1
              ELSE IF \E i \in 1..Len(Poke) : a >= Poke[i][1] /\ a < Poke[i][1] + Len(Poke[i][2])
                   THEN LET i == CHOOSE j \in 1..Len(Poke) : a >= Poke[j][1] /\ a < Poke[j][1] + Len(Poke[j][2]) IN Poke[i][2][a - Poke[i][1] + 1]
                   ELSE IF (a >= Intervals[3][1] /\ a <= Intervals[3][2]) \/ a >= Intervals[5][1] THEN 0 ELSE Tag(a)
Wide == Probes \cup {a + i : a \in Probes, i \in 1..3}
Init == mem = MemOf("tag", Poke) /\ ref = [a \in Wide |-> InitRef(a)] /\ n = 0

Store(a, sz, v) ==
  /\ n < Depth /\ n' = n + 1
  /\ IF CanAccess(a, sz)
     THEN /\ mem' = WrAll(mem, WrSeq(a, sz, v))
          /\ ref' = [x \in Wide |-> IF x >= a /\ x < a + sz
                                      THEN (IF sz = 4 THEN <<v[1] \div 256, v[1] % 256, v[2] \div 256, v[2] % 256>>
                                            ELSE IF sz = 2 THEN <<v[2] \div 256, v[2] % 256>> ELSE <<v[2] % 256>>)[x - a + 1]
                                      ELSE ref[x]]
     ELSE UNCHANGED <<mem, ref>>                        \* access error: nothing changes, not even the accessible part
Next == \E a \in Probes, sz \in {1, 2, 4}, v \in Vals : Store(a, sz, <<v, (v * 3 + 4660) % 65536>>)
Spec == Init /\ [][Next]_<<mem, ref, n>>

InvMap == /\ \A a \in Wide : Accessible(a) <=> InText(a)
          /\ \A i, j \in 1..5 : i < j => Intervals[i][2] < Intervals[j][1]
          /\ Intervals[5][2] < A24 /\ \A a \in Wide : a >= A24 => ~Accessible(a)
          /\ \A i \in 1..5 : Regions[i].lo = Intervals[i][1] /\ Regions[i].hi = Intervals[i][2]
          /\ \A a \in Wide : Accessible(a) => AreaOf(a) \in {0, 2, 7}
InvRef == \A a \in Wide : Accessible(a) => Rd(mem, a) = ref[a]
InvEndian == \A a \in Probes :
   /\ CanAccess(a, 2) => RdV(mem, a, 2) = <<0, ref[a] * 256 + ref[a + 1]>>
   /\ CanAccess(a, 4) => RdV(mem, a, 4) = <<ref[a] * 256 + ref[a + 1], ref[a + 2] * 256 + ref[a + 3]>>
Inv == InvMap /\ InvRef /\ InvEndian
=============================================================================
