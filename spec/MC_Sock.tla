------------------------------- MODULE MC_Sock -------------------------------
(***************************************************************************)
(* Design-level model of the control socket (C18) and generator of         *)
(* (line sequence x batching) schedules.                                   *)
(* Lines are sent one after another; a Poll takes everything queued at     *)
(* that moment (what Socket::pop_messages does) and applies it in order    *)
(* until a stop.  WHEN polls happen relative to the sends is the           *)
(* scheduling nondeterminism.  Checked: whatever the batching, the effects *)
(* applied are exactly the effects of the polled prefix of the sent lines, *)
(* each line once, in order, up to the first stop; malformed / unknown     *)
(* lines affect nothing.  Outgoing framing: Unescape(Escape(m)) = m, one   *)
(* line per message, no raw newline inside.                                *)
(*   kinds: 1 pause 2 start 3 stop 4 store A 5 store B 6 pin 7 malformed   *)
(*          cmd 8 unknown 9 store to RAM 10 malformed u8 / ioport          *)
(***************************************************************************)
EXTENDS H8Sock, TLC, Json, FiniteSets
CONSTANTS Kinds, MaxLen, Emit, Alphabet, MaxMsg

VARIABLES sent, inbox, applied, paused, stopped, batch, hist
vars == <<sent, inbox, applied, paused, stopped, batch, hist>>

IsEffect(k) == k \in {1, 2, 3, 4, 5, 6, 9}
(* effects of a sequence of lines applied in order, up to and including the first stop *)
RECURSIVE Eff(_)
Eff(sq) == IF Len(sq) = 0 THEN <<>>
           ELSE IF sq[1] = 3 THEN <<3>>
           ELSE (IF IsEffect(sq[1]) THEN <<sq[1]>> ELSE <<>>) \o Eff(Tail(sq))
HasStop(sq) == \E i \in 1..Len(sq) : sq[i] = 3

Init == sent = <<>> /\ inbox = <<>> /\ applied = <<>> /\ paused = FALSE /\ stopped = FALSE /\ batch = 0 /\ hist = <<>>
Send(k) == /\ Len(sent) < MaxLen
           /\ sent' = Append(sent, k) /\ inbox' = Append(inbox, k)
           /\ hist' = IF Emit THEN Append(hist, <<k, batch>>) ELSE hist
           /\ UNCHANGED <<applied, paused, stopped, batch>>
Poll == /\ Len(inbox) > 0
        /\ LET e == IF stopped THEN <<>> ELSE Eff(inbox)
           IN /\ applied' = applied \o e
              /\ stopped' = (stopped \/ HasStop(inbox))
              /\ paused' = IF \E i \in 1..Len(e) : e[i] \in {1, 2}
                           THEN e[CHOOSE i \in 1..Len(e) : e[i] \in {1, 2} /\ \A j \in (i + 1)..Len(e) : e[j] \notin {1, 2}] = 1
                           ELSE paused
        /\ inbox' = <<>> /\ batch' = batch + 1
        /\ UNCHANGED <<sent, hist>>
Next == Poll \/ \E k \in Kinds : Send(k)
Spec == Init /\ [][Next]_vars

Polled == SubSeq(sent, 1, Len(sent) - Len(inbox))
InvExactlyOnce == applied = Eff(Polled)                      \* independent of the batching
InvStop == stopped = HasStop(Polled)
EmitInv == (Emit /\ Len(sent) = MaxLen /\ Len(inbox) = 0) => PrintT("REPLAY " \o ToJson(hist))

(* framing round trip over all messages up to length MaxMsg over Alphabet *)
Msgs == UNION {[1..n -> Alphabet] : n \in 0..MaxMsg}
ASSUME \A m \in Msgs : Unescape(Escape(m)) = m
ASSUME \A m \in Msgs : \A i \in 1..Len(Escape(m)) : Escape(m)[i] # NL
ASSUME \A m \in Msgs : Frame(m)[Len(Frame(m))] = NL
=============================================================================
