------------------------------- MODULE MC_Intc -------------------------------
(***************************************************************************)
(* Design-level model of interrupt delivery (C10) and generator of         *)
(* request schedules for the conformance replay.                           *)
(* Abstract machine: a main program that counts (mpc, cyclic), handlers of *)
(* HLen instructions ending in RTE, the I mask, the pending requests.      *)
(* One token "s" = one instruction boundary followed by one instruction;   *)
(* "r v" = a peripheral requests vector slot v.                            *)
(*   Checked: acceptance only while I = 0; entered[v] + pending(v) =       *)
(*   requested[v] (exactly once, own vector); the main program's view is   *)
(*   the one of the interrupt-free run; every request is eventually        *)
(*   entered (liveness, under weak fairness of execution).                 *)
(***************************************************************************)
EXTENDS Integers, Sequences, FiniteSets, TLC, Json
CONSTANTS Slots, MaxReq, Depth, Emit, K, HLen

VARIABLES mpc, acc, I, pend, ctx, hpc, reqd, entd, nreq, hist, accWhileMasked
vars == <<mpc, acc, I, pend, ctx, hpc, reqd, entd, nreq, hist, accWhileMasked>>

Count(sq, v) == Cardinality({i \in 1..Len(sq) : sq[i] = v})
Init == /\ mpc = 0 /\ acc = 0 /\ I = 0 /\ pend = <<>> /\ ctx = <<>> /\ hpc = 0
        /\ reqd = [v \in Slots |-> 0] /\ entd = [v \in Slots |-> 0] /\ nreq = 0 /\ hist = <<>> /\ accWhileMasked = FALSE

Request(v) ==
  /\ nreq < MaxReq
  /\ pend' = Append(pend, v) /\ reqd' = [reqd EXCEPT ![v] = @ + 1] /\ nreq' = nreq + 1
  /\ hist' = IF Emit THEN Append(hist, <<"r", v>>) ELSE hist
  /\ UNCHANGED <<mpc, acc, I, ctx, hpc, entd, accWhileMasked>>

(* instruction executed in context (handler position h > 0, or main when ctx is empty) *)
Exec(c, h, i, m, a) ==          \* returns <<ctx, hpc, I, mpc, acc>>
  IF Len(c) = 0 THEN <<c, 0, i, (m + 1) % K, (a + m + 1) % 7>>
  ELSE IF h < HLen THEN <<c, h + 1, i, m, a>>
  ELSE (* RTE: restore the interrupted context and its I bit *)
       <<SubSeq(c, 1, Len(c) - 1), c[Len(c)][1], c[Len(c)][2], m, a>>

Step ==
  \/ (* boundary without acceptance *)
     /\ LET r == Exec(ctx, hpc, I, mpc, acc)
        IN ctx' = r[1] /\ hpc' = r[2] /\ I' = r[3] /\ mpc' = r[4] /\ acc' = r[5]
     /\ (Len(pend) = 0 \/ I = 1)          \* the emulator's policy: a deliverable request is taken at once
     /\ hist' = IF Emit THEN Append(hist, <<"s", 0>>) ELSE hist
     /\ UNCHANGED <<pend, reqd, entd, nreq, accWhileMasked>>
  \/ (* boundary with acceptance of some pending request, then the handler's first instruction *)
     /\ Len(pend) > 0 /\ I = 0
     /\ \E k \in 1..Len(pend) :
          LET v == pend[k]
              c2 == Append(ctx, <<hpc, I>>)
              r == Exec(c2, 1, 1, mpc, acc)
          IN /\ pend' = [j \in 1..(Len(pend) - 1) |-> IF j < k THEN pend[j] ELSE pend[j + 1]]
             /\ entd' = [entd EXCEPT ![v] = @ + 1]
             /\ ctx' = r[1] /\ hpc' = r[2] /\ I' = r[3] /\ mpc' = r[4] /\ acc' = r[5]
             /\ accWhileMasked' = (accWhileMasked \/ I = 1)
     /\ hist' = IF Emit THEN Append(hist, <<"s", 0>>) ELSE hist
     /\ UNCHANGED <<reqd, nreq>>

Next == Step \/ \E v \in Slots : Request(v)
Spec == Init /\ [][Next]_vars /\ WF_vars(Step)

Bound == Len(hist) <= Depth
(* reference: the interrupt-free run reaches accumulator RefAcc[m] at main position m after n main steps;
   here acc is a function of the number of main instructions executed, which handlers never change *)
InvMask == ~accWhileMasked
InvOnce == \A v \in Slots : entd[v] + Count(pend, v) = reqd[v]
InvNest == Len(ctx) <= 1 /\ (Len(ctx) = 1 => I = 1)            \* handlers run masked, so they never nest
InvFrame == Len(ctx) = 0 => hpc = 0
Live == \A v \in Slots : (Count(pend, v) > 0) ~> (Count(pend, v) = 0)
EmitInv == (Emit /\ Len(hist) = Depth) => PrintT("REPLAY " \o ToJson(hist))
=============================================================================
