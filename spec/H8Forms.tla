------------------------------ MODULE H8Forms ------------------------------
(***************************************************************************)
(* The H8/300H instruction set as DATA: one record per instruction form,   *)
(* transcribed from the programming manual's instruction-code table        *)
(* (must-be-zero bits included) and its "number of cycles" table for       *)
(* advanced mode.  Decode is lookup in this table (property C07); the      *)
(* operand descriptors drive the generic semantics in H8Exec; the cycle    *)
(* vector <<I,J,K,L,M,N>> drives the cost model (C20).  The same table is  *)
(* exported as JSON for the conformance drivers, which are dumb            *)
(* instantiators of its bit patterns.                                      *)
(*                                                                         *)
(* w   : sequence of [m, v] per instruction word; a word x matches iff     *)
(*       (x & m) = v.  Len(w) * 2 is the encoded length.                   *)
(* a,b : source / destination operand descriptors <<kind, wi, p, xi>>      *)
(*       wi = word index holding the register nibble / aa:8 byte,          *)
(*       p  = nibble position 1..4 inside that word (1 = most significant),*)
(*       xi = index of the first extension word (imm / disp / abs).        *)
(* st  : "impl" (README says implemented) or "unimpl" (valid H8/300H       *)
(*       instruction the emulator does not implement: must be rejected).   *)
(* Any word sequence matching no row is "undefined": the properties are    *)
(* silent about it.                                                        *)
(***************************************************************************)
EXTENDS H8Base

Wd(m, v) == [m |-> m, v |-> v]
AnyW  == Wd(0, 0)
Top0  == Wd(65280, 0)                 \* extension word whose top byte must be 00 (24-bit abs / disp)

(* operand descriptors *)
None      == <<"-", 0, 0, 0>>
Rg(wi, p) == <<"R", wi, p, 0>>        \* register direct (size of the row)
RgW(wi,p) == <<"RW", wi, p, 0>>       \* word register (MULXU.B / DIVXU.B destination)
RgL(wi,p) == <<"RL", wi, p, 0>>       \* long register (MULXU.W / DIVXU.W destination)
RgB(wi,p) == <<"RB8", wi, p, 0>>      \* byte register irrespective of row size
Im8       == <<"I8", 1, 0, 0>>
Im16(xi)  == <<"I16", 0, 0, xi>>
Im32(xi)  == <<"I32", 0, 0, xi>>
Ind(wi,p) == <<"IND", wi, p, 0>>
D16(wi,p,xi) == <<"D16", wi, p, xi>>
D24(wi,p,xi) == <<"D24", wi, p, xi>>
Inc(wi,p) == <<"INC", wi, p, 0>>
Dec(wi,p) == <<"DEC", wi, p, 0>>
Ab8(wi)   == <<"A8", wi, 0, 0>>
Ab16(xi)  == <<"A16", 0, 0, xi>>
Ab24(xi)  == <<"A24", 0, 0, xi>>
CcrOp     == <<"CCR", 0, 0, 0>>
Bi3(wi,p) == <<"B3", wi, p, 0>>       \* immediate bit number (low 3 bits of the nibble)
BiR(wi,p) == <<"BR", wi, p, 0>>       \* bit number = low 3 bits of a byte register
Pd8       == <<"PD8", 1, 0, 0>>       \* PC-relative 8-bit displacement
Pd16(xi)  == <<"PD16", 0, 0, xi>>
Vec8      == <<"VEC", 1, 0, 0>>       \* memory indirect @@aa:8

Row(id, mn, sz, w, a, b, x, st, cy) ==
  [id |-> id, mn |-> mn, sz |-> sz, w |-> w, a |-> a, b |-> b, x |-> x, st |-> st, cy |-> cy]
I(n) == <<n, 0, 0, 0, 0, 0>>
(* cycles of a form with one memory operand of size sz: i fetches, n internal *)
CyM(sz, i, n) == IF sz = 1 THEN <<i, 0, 0, 1, 0, n>> ELSE IF sz = 2 THEN <<i, 0, 0, 0, 1, n>> ELSE <<i, 0, 0, 0, 2, n>>
Un(id, w) == Row(id, "UNIMPL", 0, w, None, None, 0, "unimpl", I(0))

(* ---------------------------------------------------------------------- *)
(* MOV.B / MOV.W: identical structure, different opcode bytes              *)
(*   rr : register-register opcode byte, oi @ERn, od d:16, op +/-,         *)
(*   oa : abs16/abs24/d24 second word byte (6A / 6B)                       *)
(* ---------------------------------------------------------------------- *)
MovBW(s, sz, rr, oi, od, op, oa) ==
  << Row("MOV." \o s \o " Rs,Rd", "MOV", sz, <<Wd(65280, rr * 256)>>, Rg(1,3), Rg(1,4), 0, "impl", I(1)),
     Row("MOV." \o s \o " @ERs,Rd", "MOV", sz, <<Wd(65408, oi * 256)>>, Ind(1,3), Rg(1,4), 0, "impl", CyM(sz,1,0)),
     Row("MOV." \o s \o " Rs,@ERd", "MOV", sz, <<Wd(65408, oi * 256 + 128)>>, Rg(1,4), Ind(1,3), 0, "impl", CyM(sz,1,0)),
     Row("MOV." \o s \o " @(d:16,ERs),Rd", "MOV", sz, <<Wd(65408, od * 256), AnyW>>, D16(1,3,2), Rg(1,4), 0, "impl", CyM(sz,2,0)),
     Row("MOV." \o s \o " Rs,@(d:16,ERd)", "MOV", sz, <<Wd(65408, od * 256 + 128), AnyW>>, Rg(1,4), D16(1,3,2), 0, "impl", CyM(sz,2,0)),
     Row("MOV." \o s \o " @(d:24,ERs),Rd", "MOV", sz, <<Wd(65423, 30720), Wd(65520, oa * 256 + 32), Top0, AnyW>>, D24(1,3,3), Rg(2,4), 0, "impl", CyM(sz,4,0)),
     Row("MOV." \o s \o " Rs,@(d:24,ERd)", "MOV", sz, <<Wd(65423, 30720), Wd(65520, oa * 256 + 160), Top0, AnyW>>, Rg(2,4), D24(1,3,3), 0, "impl", CyM(sz,4,0)),
     Row("MOV." \o s \o " @ERs+,Rd", "MOV", sz, <<Wd(65408, op * 256)>>, Inc(1,3), Rg(1,4), 0, "impl", CyM(sz,1,2)),
     Row("MOV." \o s \o " Rs,@-ERd", "MOV", sz, <<Wd(65408, op * 256 + 128)>>, Rg(1,4), Dec(1,3), 0, "impl", CyM(sz,1,2)),
     Row("MOV." \o s \o " @aa:16,Rd", "MOV", sz, <<Wd(65520, oa * 256), AnyW>>, Ab16(2), Rg(1,4), 0, "impl", CyM(sz,2,0)),
     Row("MOV." \o s \o " Rs,@aa:16", "MOV", sz, <<Wd(65520, oa * 256 + 128), AnyW>>, Rg(1,4), Ab16(2), 0, "impl", CyM(sz,2,0)),
     Row("MOV." \o s \o " @aa:24,Rd", "MOV", sz, <<Wd(65520, oa * 256 + 32), Top0, AnyW>>, Ab24(2), Rg(1,4), 0, "impl", CyM(sz,3,0)),
     Row("MOV." \o s \o " Rs,@aa:24", "MOV", sz, <<Wd(65520, oa * 256 + 160), Top0, AnyW>>, Rg(1,4), Ab24(2), 0, "impl", CyM(sz,3,0)) >>

MovRows ==
  MovBW("B", 1, 12, 104, 110, 108, 106)                    \* 0C 68 6E 6C 6A
  \o << Row("MOV.B #xx:8,Rd", "MOV", 1, <<Wd(61440, 61440)>>, Im8, Rg(1,2), 0, "impl", I(1)),
        Row("MOV.B @aa:8,Rd", "MOV", 1, <<Wd(61440, 8192)>>, Ab8(1), Rg(1,2), 0, "impl", CyM(1,1,0)),
        Row("MOV.B Rs,@aa:8", "MOV", 1, <<Wd(61440, 12288)>>, Rg(1,2), Ab8(1), 0, "impl", CyM(1,1,0)),
        Un("MOVFPE @aa:16,Rd", <<Wd(65520, 27200), AnyW>>),  \* 6A 4 r
        Un("MOVTPE Rs,@aa:16", <<Wd(65520, 27328), AnyW>>) >> \* 6A C r
  \o MovBW("W", 2, 13, 105, 111, 109, 107)                 \* 0D 69 6F 6D 6B
  \o << Row("MOV.W #xx:16,Rd", "MOV", 2, <<Wd(65520, 30976), AnyW>>, Im16(2), Rg(1,4), 0, "impl", I(2)),  \* 79 0 r
        Row("MOV.L ERs,ERd", "MOV", 4, <<Wd(65416, 3968)>>, Rg(1,3), Rg(1,4), 0, "impl", I(1)),          \* 0F 1sss 0ddd
        Row("MOV.L #xx:32,ERd", "MOV", 4, <<Wd(65528, 31232), AnyW, AnyW>>, Im32(2), Rg(1,4), 0, "impl", I(3)), \* 7A 0 0ddd
        Row("MOV.L @ERs,ERd", "MOV", 4, <<Wd(65535, 256), Wd(65416, 26880)>>, Ind(2,3), Rg(2,4), 0, "impl", CyM(4,2,0)),
        Row("MOV.L ERs,@ERd", "MOV", 4, <<Wd(65535, 256), Wd(65416, 27008)>>, Rg(2,4), Ind(2,3), 0, "impl", CyM(4,2,0)),
        Row("MOV.L @(d:16,ERs),ERd", "MOV", 4, <<Wd(65535, 256), Wd(65416, 28416), AnyW>>, D16(2,3,3), Rg(2,4), 0, "impl", CyM(4,3,0)),
        Row("MOV.L ERs,@(d:16,ERd)", "MOV", 4, <<Wd(65535, 256), Wd(65416, 28544), AnyW>>, Rg(2,4), D16(2,3,3), 0, "impl", CyM(4,3,0)),
        Row("MOV.L @(d:24,ERs),ERd", "MOV", 4, <<Wd(65535, 256), Wd(65423, 30720), Wd(65528, 27424), Top0, AnyW>>, D24(2,3,4), Rg(3,4), 0, "impl", CyM(4,5,0)),
        Row("MOV.L ERs,@(d:24,ERd)", "MOV", 4, <<Wd(65535, 256), Wd(65423, 30848), Wd(65528, 27552), Top0, AnyW>>, Rg(3,4), D24(2,3,4), 0, "impl", CyM(4,5,0)),
        Row("MOV.L @ERs+,ERd", "MOV", 4, <<Wd(65535, 256), Wd(65416, 27904)>>, Inc(2,3), Rg(2,4), 0, "impl", CyM(4,2,2)),
        Row("MOV.L ERs,@-ERd", "MOV", 4, <<Wd(65535, 256), Wd(65416, 28032)>>, Rg(2,4), Dec(2,3), 0, "impl", CyM(4,2,2)),
        Row("MOV.L @aa:16,ERd", "MOV", 4, <<Wd(65535, 256), Wd(65528, 27392), AnyW>>, Ab16(3), Rg(2,4), 0, "impl", CyM(4,3,0)),
        Row("MOV.L ERs,@aa:16", "MOV", 4, <<Wd(65535, 256), Wd(65528, 27520), AnyW>>, Rg(2,4), Ab16(3), 0, "impl", CyM(4,3,0)),
        Row("MOV.L @aa:24,ERd", "MOV", 4, <<Wd(65535, 256), Wd(65528, 27424), Top0, AnyW>>, Ab24(3), Rg(2,4), 0, "impl", CyM(4,4,0)),
        Row("MOV.L ERs,@aa:24", "MOV", 4, <<Wd(65535, 256), Wd(65528, 27552), Top0, AnyW>>, Rg(2,4), Ab24(3), 0, "impl", CyM(4,4,0)) >>

(* ---------------------------------------------------------------------- *)
(* two-operand ALU families (ADD SUB CMP AND OR XOR)                        *)
(* ---------------------------------------------------------------------- *)
AluRR(nm, mn, sz, opb) ==        \* op rs rd  (byte / word registers: all 16 x 16)
  Row(nm, mn, sz, <<Wd(65280, opb * 256)>>, Rg(1,3), Rg(1,4), 0, "impl", I(1))
AluLL(nm, mn, opb) ==            \* op 1sss 0ddd
  Row(nm, mn, 4, <<Wd(65416, opb * 256 + 128)>>, Rg(1,3), Rg(1,4), 0, "impl", I(1))
AluI8(nm, mn, hi) ==             \* hi rd ii
  Row(nm, mn, 1, <<Wd(61440, hi * 4096)>>, Im8, Rg(1,2), 0, "impl", I(1))
AluI16(nm, mn, sub) ==           \* 79 sub rd iiii
  Row(nm, mn, 2, <<Wd(65520, 30976 + sub * 16), AnyW>>, Im16(2), Rg(1,4), 0, "impl", I(2))
AluI32(nm, mn, sub) ==           \* 7A sub 0ddd iiii iiii
  Row(nm, mn, 4, <<Wd(65528, 31232 + sub * 16), AnyW, AnyW>>, Im32(2), Rg(1,4), 0, "impl", I(3))
AluF0(nm, mn, opb) ==            \* 01F0 op 0sss 0ddd
  Row(nm, mn, 4, <<Wd(65535, 496), Wd(65416, opb * 256)>>, Rg(2,3), Rg(2,4), 0, "impl", I(2))

(* one-operand forms: 'hi' byte, sub-opcode nibble 'sub', register in nibble 4 *)
Un1(nm, mn, sz, hi, sub, x) ==
  Row(nm, mn, sz, <<Wd(IF sz = 4 THEN 65528 ELSE 65520, hi * 256 + sub * 16)>>, None, Rg(1,4), x, "impl", I(1))

ArithRows ==
  << AluI8("ADD.B #xx:8,Rd", "ADD", 8), AluRR("ADD.B Rs,Rd", "ADD", 1, 8),
     AluI16("ADD.W #xx:16,Rd", "ADD", 1), AluRR("ADD.W Rs,Rd", "ADD", 2, 9),
     AluI32("ADD.L #xx:32,ERd", "ADD", 1), AluLL("ADD.L ERs,ERd", "ADD", 10),
     AluI8("ADDX #xx:8,Rd", "ADDX", 9), AluRR("ADDX Rs,Rd", "ADDX", 1, 14),
     AluI8("CMP.B #xx:8,Rd", "CMP", 10), AluRR("CMP.B Rs,Rd", "CMP", 1, 28),
     AluI16("CMP.W #xx:16,Rd", "CMP", 2), AluRR("CMP.W Rs,Rd", "CMP", 2, 29),
     AluI32("CMP.L #xx:32,ERd", "CMP", 2), AluLL("CMP.L ERs,ERd", "CMP", 31),
     AluRR("SUB.B Rs,Rd", "SUB", 1, 24),
     AluI16("SUB.W #xx:16,Rd", "SUB", 3), AluRR("SUB.W Rs,Rd", "SUB", 2, 25),
     AluI32("SUB.L #xx:32,ERd", "SUB", 3), AluLL("SUB.L ERs,ERd", "SUB", 26),
     Un1("ADDS #1,ERd", "ADDS", 4, 11, 0, 1), Un1("ADDS #2,ERd", "ADDS", 4, 11, 8, 2), Un1("ADDS #4,ERd", "ADDS", 4, 11, 9, 4),
     Un1("SUBS #1,ERd", "SUBS", 4, 27, 0, 1), Un1("SUBS #2,ERd", "SUBS", 4, 27, 8, 2), Un1("SUBS #4,ERd", "SUBS", 4, 27, 9, 4),
     Un1("INC.B Rd", "INC", 1, 10, 0, 1),
     Un1("INC.W #1,Rd", "INC", 2, 11, 5, 1), Un1("INC.W #2,Rd", "INC", 2, 11, 13, 2),
     Un1("INC.L #1,ERd", "INC", 4, 11, 7, 1), Un1("INC.L #2,ERd", "INC", 4, 11, 15, 2),
     Un1("DEC.B Rd", "DEC", 1, 26, 0, 1),
     Un1("DEC.W #1,Rd", "DEC", 2, 27, 5, 1), Un1("DEC.W #2,Rd", "DEC", 2, 27, 13, 2),
     Un1("DEC.L #1,ERd", "DEC", 4, 27, 7, 1), Un1("DEC.L #2,ERd", "DEC", 4, 27, 15, 2),
     Un1("NEG.B Rd", "NEG", 1, 23, 8, 0), Un1("NEG.W Rd", "NEG", 2, 23, 9, 0), Un1("NEG.L ERd", "NEG", 4, 23, 11, 0),
     Row("MULXU.B Rs,Rd", "MULXU", 1, <<Wd(65280, 20480)>>, RgB(1,3), RgW(1,4), 0, "impl", <<1,0,0,0,0,12>>),
     Row("MULXU.W Rs,ERd", "MULXU", 2, <<Wd(65288, 20992)>>, Rg(1,3), RgL(1,4), 0, "impl", <<1,0,0,0,0,20>>),
     Row("DIVXU.B Rs,Rd", "DIVXU", 1, <<Wd(65280, 20736)>>, RgB(1,3), RgW(1,4), 0, "impl", <<1,0,0,0,0,12>>),
     Row("DIVXU.W Rs,ERd", "DIVXU", 2, <<Wd(65288, 21248)>>, Rg(1,3), RgL(1,4), 0, "impl", <<1,0,0,0,0,20>>),
     Un("SUBX #xx:8,Rd", <<Wd(61440, 45056)>>), Un("SUBX Rs,Rd", <<Wd(65280, 7680)>>),
     Un("DAA Rd", <<Wd(65520, 3840)>>), Un("DAS Rd", <<Wd(65520, 7936)>>),
     Un("EXTS.W Rd", <<Wd(65520, 6096)>>), Un("EXTS.L ERd", <<Wd(65528, 6128)>>),
     Un("MULXS.B Rs,Rd", <<Wd(65535, 448), Wd(65280, 20480)>>), Un("MULXS.W Rs,ERd", <<Wd(65535, 448), Wd(65288, 20992)>>),
     Un("DIVXS.B Rs,Rd", <<Wd(65535, 464), Wd(65280, 20736)>>), Un("DIVXS.W Rs,ERd", <<Wd(65535, 464), Wd(65288, 21248)>>) >>

LogicRows ==
  << AluI8("AND.B #xx:8,Rd", "AND", 14), AluRR("AND.B Rs,Rd", "AND", 1, 22),
     AluI16("AND.W #xx:16,Rd", "AND", 6), AluRR("AND.W Rs,Rd", "AND", 2, 102),
     AluI32("AND.L #xx:32,ERd", "AND", 6), AluF0("AND.L ERs,ERd", "AND", 102),
     AluI8("OR.B #xx:8,Rd", "OR", 12), AluRR("OR.B Rs,Rd", "OR", 1, 20),
     AluI16("OR.W #xx:16,Rd", "OR", 4), AluRR("OR.W Rs,Rd", "OR", 2, 100),
     AluI32("OR.L #xx:32,ERd", "OR", 4), AluF0("OR.L ERs,ERd", "OR", 100),
     AluI8("XOR.B #xx:8,Rd", "XOR", 13), AluRR("XOR.B Rs,Rd", "XOR", 1, 21),
     AluI16("XOR.W #xx:16,Rd", "XOR", 5), AluRR("XOR.W Rs,Rd", "XOR", 2, 101),
     AluI32("XOR.L #xx:32,ERd", "XOR", 5), AluF0("XOR.L ERs,ERd", "XOR", 101),
     Un1("NOT.B Rd", "NOT", 1, 23, 0, 0), Un1("NOT.W Rd", "NOT", 2, 23, 1, 0), Un1("NOT.L ERd", "NOT", 4, 23, 3, 0),
     Un1("EXTU.W Rd", "EXTU", 2, 23, 5, 0), Un1("EXTU.L ERd", "EXTU", 4, 23, 7, 0),
     Un1("SHLL.B Rd", "SHLL", 1, 16, 0, 0), Un1("SHLL.W Rd", "SHLL", 2, 16, 1, 0), Un1("SHLL.L ERd", "SHLL", 4, 16, 3, 0),
     Un1("SHAL.B Rd", "SHAL", 1, 16, 8, 0), Un1("SHAL.W Rd", "SHAL", 2, 16, 9, 0), Un1("SHAL.L ERd", "SHAL", 4, 16, 11, 0),
     Un1("SHLR.B Rd", "SHLR", 1, 17, 0, 0), Un1("SHLR.W Rd", "SHLR", 2, 17, 1, 0), Un1("SHLR.L ERd", "SHLR", 4, 17, 3, 0),
     Un1("SHAR.B Rd", "SHAR", 1, 17, 8, 0), Un1("SHAR.W Rd", "SHAR", 2, 17, 9, 0), Un1("SHAR.L ERd", "SHAR", 4, 17, 11, 0),
     Un1("ROTXL.B Rd", "ROTXL", 1, 18, 0, 0), Un1("ROTXL.W Rd", "ROTXL", 2, 18, 1, 0), Un1("ROTXL.L ERd", "ROTXL", 4, 18, 3, 0),
     Un1("ROTL.B Rd", "ROTL", 1, 18, 8, 0), Un1("ROTL.W Rd", "ROTL", 2, 18, 9, 0), Un1("ROTL.L ERd", "ROTL", 4, 18, 11, 0),
     Un1("ROTXR.B Rd", "ROTXR", 1, 19, 0, 0), Un1("ROTXR.W Rd", "ROTXR", 2, 19, 1, 0), Un1("ROTXR.L ERd", "ROTXR", 4, 19, 3, 0),
     Un1("ROTR.B Rd", "ROTR", 1, 19, 8, 0), Un1("ROTR.W Rd", "ROTR", 2, 19, 9, 0), Un1("ROTR.L ERd", "ROTR", 4, 19, 11, 0),
     Un("ANDC #xx:8,CCR", <<Wd(65280, 1536)>>), Un("ORC #xx:8,CCR", <<Wd(65280, 1024)>>), Un("XORC #xx:8,CCR", <<Wd(65280, 1280)>>) >>

(* ---------------------------------------------------------------------- *)
(* bit manipulation: op byte ob, inverted flag inv (bit 7 of the low byte)  *)
(*   rmw = TRUE  : read-modify-write ops, memory prefix 7D / 7F, L = 2      *)
(*   rmw = FALSE : read-only ops,         memory prefix 7C / 7E, L = 1      *)
(* ---------------------------------------------------------------------- *)
BitImm(nm, mn, ob, inv, rmw) ==
  LET lowv == ob * 256 + inv * 128
      pe   == IF rmw THEN 32000 ELSE 31744        \* 7D00 / 7C00
      pa   == IF rmw THEN 32512 ELSE 32256        \* 7F00 / 7E00
      cm   == IF rmw THEN <<2,0,0,2,0,0>> ELSE <<2,0,0,1,0,0>>
  IN << Row(nm \o " #xx:3,Rd", mn, 1, <<Wd(65408, lowv)>>, Bi3(1,3), Rg(1,4), 0, "impl", I(1)),
        Row(nm \o " #xx:3,@ERd", mn, 1, <<Wd(65423, pe), Wd(65423, lowv)>>, Bi3(2,3), Ind(1,3), 0, "impl", cm),
        Row(nm \o " #xx:3,@aa:8", mn, 1, <<Wd(65280, pa), Wd(65423, lowv)>>, Bi3(2,3), Ab8(1), 0, "impl", cm) >>
BitReg(nm, mn, ob, rmw) ==
  LET pe   == IF rmw THEN 32000 ELSE 31744
      pa   == IF rmw THEN 32512 ELSE 32256
      cm   == IF rmw THEN <<2,0,0,2,0,0>> ELSE <<2,0,0,1,0,0>>
  IN << Row(nm \o " Rn,Rd", mn, 1, <<Wd(65280, ob * 256)>>, BiR(1,3), Rg(1,4), 0, "impl", I(1)),
        Row(nm \o " Rn,@ERd", mn, 1, <<Wd(65423, pe), Wd(65295, ob * 256)>>, BiR(2,3), Ind(1,3), 0, "impl", cm),
        Row(nm \o " Rn,@aa:8", mn, 1, <<Wd(65280, pa), Wd(65295, ob * 256)>>, BiR(2,3), Ab8(1), 0, "impl", cm) >>

BitRows ==
  BitImm("BSET", "BSET", 112, 0, TRUE) \o BitReg("BSET", "BSET", 96, TRUE)
  \o BitImm("BNOT", "BNOT", 113, 0, TRUE) \o BitReg("BNOT", "BNOT", 97, TRUE)
  \o BitImm("BCLR", "BCLR", 114, 0, TRUE) \o BitReg("BCLR", "BCLR", 98, TRUE)
  \o BitImm("BTST", "BTST", 115, 0, FALSE) \o BitReg("BTST", "BTST", 99, FALSE)
  \o BitImm("BOR", "BOR", 116, 0, FALSE) \o BitImm("BIOR", "BIOR", 116, 1, FALSE)
  \o BitImm("BXOR", "BXOR", 117, 0, FALSE) \o BitImm("BIXOR", "BIXOR", 117, 1, FALSE)
  \o BitImm("BAND", "BAND", 118, 0, FALSE) \o BitImm("BIAND", "BIAND", 118, 1, FALSE)
  \o BitImm("BLD", "BLD", 119, 0, FALSE) \o BitImm("BILD", "BILD", 119, 1, FALSE)
  \o BitImm("BST", "BST", 103, 0, TRUE) \o BitImm("BIST", "BIST", 103, 1, TRUE)

(* ---------------------------------------------------------------------- *)
(* control transfer, system                                                *)
(* ---------------------------------------------------------------------- *)
CtlRows ==
  << Row("Bcc d:8", "BCC", 0, <<Wd(61440, 16384)>>, Pd8, None, 2, "impl", I(2)),                         \* 4c dd, cond = nibble 2
     Row("Bcc d:16", "BCC", 0, <<Wd(65295, 22528), AnyW>>, Pd16(2), None, 3, "impl", <<2,0,0,0,0,2>>),    \* 58 c0 dddd, cond = nibble 3
     Row("JMP @ERn", "JMP", 0, <<Wd(65423, 22784)>>, Ind(1,3), None, 0, "impl", I(2)),                    \* 59 0nnn 0
     Row("JMP @aa:24", "JMP", 0, <<Wd(65280, 23040), AnyW>>, <<"J24", 1, 0, 2>>, None, 0, "impl", <<2,0,0,0,0,2>>),
     Row("JMP @@aa:8", "JMP", 0, <<Wd(65280, 23296)>>, Vec8, None, 0, "impl", <<2,2,0,0,0,2>>),
     Row("BSR d:8", "BSR", 0, <<Wd(65280, 21760)>>, Pd8, None, 0, "impl", <<2,0,2,0,0,0>>),
     Row("BSR d:16", "BSR", 0, <<Wd(65535, 23552), AnyW>>, Pd16(2), None, 0, "impl", <<2,0,2,0,0,2>>),
     Row("JSR @ERn", "JSR", 0, <<Wd(65423, 23808)>>, Ind(1,3), None, 0, "impl", <<2,0,2,0,0,0>>),
     Row("JSR @aa:24", "JSR", 0, <<Wd(65280, 24064), AnyW>>, <<"J24", 1, 0, 2>>, None, 0, "impl", <<2,0,2,0,0,2>>),
     Row("JSR @@aa:8", "JSR", 0, <<Wd(65280, 24320)>>, Vec8, None, 0, "impl", <<2,2,2,0,0,0>>),
     Row("RTS", "RTS", 0, <<Wd(65535, 21616)>>, None, None, 0, "impl", <<2,0,2,0,0,2>>),
     Row("RTE", "RTE", 0, <<Wd(65535, 22128)>>, None, None, 0, "impl", <<2,0,2,0,0,2>>),
     Row("TRAPA #x:2", "TRAPA", 0, <<Wd(65487, 22272)>>, None, None, 0, "impl", <<2,2,2,0,0,4>>),         \* 57 00xx 0
     Row("STC.B CCR,Rd", "STC", 1, <<Wd(65520, 512)>>, CcrOp, Rg(1,4), 0, "impl", I(1)),
     Row("STC.W CCR,@ERd", "STC", 2, <<Wd(65535, 320), Wd(65423, 27008)>>, CcrOp, Ind(2,3), 0, "impl", CyM(2,2,0)),
     Row("STC.W CCR,@(d:16,ERd)", "STC", 2, <<Wd(65535, 320), Wd(65423, 28544), AnyW>>, CcrOp, D16(2,3,3), 0, "impl", CyM(2,3,0)),
     Row("STC.W CCR,@(d:24,ERd)", "STC", 2, <<Wd(65535, 320), Wd(65423, 30720), Wd(65535, 27552), Top0, AnyW>>, CcrOp, D24(2,3,4), 0, "impl", CyM(2,5,0)),
     Row("STC.W CCR,@-ERd", "STC", 2, <<Wd(65535, 320), Wd(65423, 28032)>>, CcrOp, Dec(2,3), 0, "impl", CyM(2,2,2)),
     Row("STC.W CCR,@aa:16", "STC", 2, <<Wd(65535, 320), Wd(65535, 27520), AnyW>>, CcrOp, Ab16(3), 0, "impl", CyM(2,3,0)),
     Row("STC.W CCR,@aa:24", "STC", 2, <<Wd(65535, 320), Wd(65535, 27552), Top0, AnyW>>, CcrOp, Ab24(3), 0, "impl", CyM(2,4,0)),
     Un("LDC #xx:8,CCR", <<Wd(65280, 1792)>>), Un("LDC Rs,CCR", <<Wd(65520, 768)>>),
     Un("LDC @ERs,CCR", <<Wd(65535, 320), Wd(65423, 26880)>>),
     Un("LDC @(d:16,ERs),CCR", <<Wd(65535, 320), Wd(65423, 28416), AnyW>>),
     Un("LDC @(d:24,ERs),CCR", <<Wd(65535, 320), Wd(65423, 30720), Wd(65535, 27424), Top0, AnyW>>),
     Un("LDC @ERs+,CCR", <<Wd(65535, 320), Wd(65423, 27904)>>),
     Un("LDC @aa:16,CCR", <<Wd(65535, 320), Wd(65535, 27392), AnyW>>),
     Un("LDC @aa:24,CCR", <<Wd(65535, 320), Wd(65535, 27424), Top0, AnyW>>),
     Un("NOP", <<Wd(65535, 0)>>), Un("SLEEP", <<Wd(65535, 384)>>),
     Un("EEPMOV.B", <<Wd(65535, 31580), Wd(65535, 22927)>>), Un("EEPMOV.W", <<Wd(65535, 31700), Wd(65535, 22927)>>) >>

Forms == MovRows \o ArithRows \o LogicRows \o BitRows \o CtlRows
NForms == Len(Forms)

(* ---------------------------------------------------------------------- *)
(* decode                                                                  *)
(* ---------------------------------------------------------------------- *)
WMatch(x, pat) == (x & pat.m) = pat.v
(* rows whose first-word pattern is compatible with high byte h (index, precomputed once) *)
ByHi == [h \in 0..255 |->
           SelectSeq([i \in 1..NForms |-> i],
                     LAMBDA i : ((h * 256) & (Forms[i].w[1].m & 65280)) = (Forms[i].w[1].v & 65280))]
RowLen(r) == 2 * Len(r.w)

(* ws: sequence of up to 5 words, -1 where the word could not be fetched.       *)
(* A row matches fully iff all its words are present and match.                  *)
FullMatch(r, ws) == \A i \in 1..Len(r.w) : ws[i] >= 0 /\ WMatch(ws[i], r.w[i])
(* a row "runs into a fetch fault": a proper prefix matches and the next word is missing *)
FaultMatch(r, ws) == \E k \in 1..Len(r.w) : ws[k] < 0 /\ \A i \in 1..(k - 1) : ws[i] >= 0 /\ WMatch(ws[i], r.w[i])

Cands(ws) == IF ws[1] < 0 THEN <<>> ELSE ByHi[ws[1] \div 256]
MatchSet(ws) == {i \in {Cands(ws)[k] : k \in 1..Len(Cands(ws))} : FullMatch(Forms[i], ws)}
FaultSet(ws) == {i \in {Cands(ws)[k] : k \in 1..Len(Cands(ws))} : FaultMatch(Forms[i], ws)}

(* Decode: row index, or 0 = undefined encoding, or -1 = instruction fetch fault *)
Decode(ws) ==
  IF ws[1] < 0 THEN -1
  ELSE LET ms == MatchSet(ws)
       IN IF ms # {} THEN CHOOSE i \in ms : TRUE
          ELSE IF FaultSet(ws) # {} THEN -1 ELSE 0

Nib(x, p) == (x \div (16 ^ (4 - p))) % 16
=============================================================================
