------------------------------ MODULE MC_Decode ------------------------------
(***************************************************************************)
(* Self-checks of the instruction form table (C07) and totality of StepF   *)
(* (C15) at the design level, over ALL 65,536 first instruction words:     *)
(*  - decode is a function: no two rows match the same word sequence, no   *)
(*    one-word row shares a first word with a multi-word row;              *)
(*  - every row is matched by its own canonical encoding;                  *)
(*  - StepF is defined (a record with res in {ok, err, any}) for every     *)
(*    first word under adversarial register files.                         *)
(* Second words: the patterns of the table, their single-bit neighbours    *)
(* and a grid (all 65,536 in the thorough config).                         *)
(***************************************************************************)
EXTENDS H8Exec, FiniteSets
CONSTANTS W2Grid          \* step of the second-word grid (1 = all)

VARIABLE ws      \* <<phase, value>>: phase 0 = seed (high byte), phase 1 = the word under test
(* TLC evaluates invariants of INITIAL states in one thread; seeding with the 256 high bytes and expanding *)
(* each into its 256 words as successors lets all workers share the 65,536 cases                         *)
Init == ws \in {<<0, h>> : h \in 0..255}
Next == ws[1] = 0 /\ ws' \in {<<1, ws[2] * 256 + k>> : k \in 0..255}
Spec == Init /\ [][Next]_ws
w == ws[2]

One(i)  == Len(Forms[i].w) = 1
Rows1(x) == {i \in 1..NForms : One(i) /\ WMatch(x, Forms[i].w[1])}
RowsM(x) == {i \in 1..NForms : ~One(i) /\ WMatch(x, Forms[i].w[1])}
(* second-word candidates for a prefix *)
W2Cands(x) == {Forms[i].w[2].v : i \in RowsM(x)}
              \cup {(Forms[i].w[2].v + 2 ^ b) % P16 : i \in RowsM(x), b \in 0..15}
              \cup {g * W2Grid : g \in 0..(65535 \div W2Grid)}
W3Cands(x, y) == {Forms[i].w[3].v : i \in {j \in RowsM(x) : Len(Forms[j].w) >= 3 /\ WMatch(y, Forms[j].w[2])}} \cup {0, 27424, 27552}
InvFunction ==
  ws[1] = 0 \/
  /\ Cardinality(Rows1(w)) <= 1
  /\ (Rows1(w) # {} => RowsM(w) = {})
  /\ (RowsM(w) # {} =>
        \A y \in W2Cands(w) : \A z \in W3Cands(w, y) :
           Cardinality(MatchSet(<<w, y, z, 0, 0>>)) <= 1 /\ Cardinality(MatchSet(<<w, y, z, 255, 65535>>)) <= 1)

Adv == << [n \in 0..7 |-> <<0, 0>>], [n \in 0..7 |-> <<65535, 65535>>], [n \in 0..7 |-> <<255, 65535 - n>>],
          [n \in 0..7 |-> <<n % 2 * 255, (16760608 + 4 * n) % P16>>] >>
Total(x) == x.res \in {"ok", "err", "any"} /\ x.ccr \in 0..255
InvTotal ==
  ws[1] = 0 \/
  \A k \in {1 + (w % 2), 3 + (w % 2)} : \A pc \in {IF w % 3 = 0 THEN 16760832 ELSE 4194304, IF w % 5 = 0 THEN 250 ELSE 6291454} :
     Total(StepF([er |-> Adv[k], ccr |-> (k * 85) % 256, pc |-> pc,
                  mem |-> MemOf("tag", << <<pc, <<w \div 256, w % 256>>>> >>)]))

(* every row decodes to itself from its canonical encoding (free bits 0) *)
Canon(i) == [k \in 1..5 |-> IF k <= Len(Forms[i].w) THEN Forms[i].w[k].v ELSE 0]
ASSUME \A i \in 1..NForms : MatchSet(Canon(i)) = {i}
ASSUME \A i \in 1..NForms : Forms[i].st \in {"impl", "unimpl"} /\ Len(Forms[i].w) \in 1..5
ASSUME \A i, j \in 1..NForms : i # j => Forms[i].id # Forms[j].id
=============================================================================
