------------------------------- MODULE MC_Port -------------------------------
(***************************************************************************)
(* Design-level model of the I/O ports (C16) and generator of port         *)
(* histories for the conformance replay.                                   *)
(*   Slots : abstract ports taking part (1 or 2)                           *)
(*   Vals  : byte values used by the operations                            *)
(*   Depth : history length (state constraint)                             *)
(*   Emit  : TRUE = print every history of length Depth as a REPLAY line   *)
(* The model announces the driven value exactly when it changes (or        *)
(* becomes known).  Checked: read-back definition per bit, last announced  *)
(* = current output, external changes never disturb output bits, ports     *)
(* independent.                                                            *)
(***************************************************************************)
EXTENDS H8Port, Json, TLC
CONSTANTS Slots, Vals, Depth, Emit

VARIABLES port, ann, hist
vars == <<port, ann, hist>>

Init == /\ port = [s \in Slots |-> PortInit]
        /\ ann = [s \in Slots |-> -1]
        /\ hist = <<>>

Op(s, kind, v) ==
  LET p == port[s]
      q == IF kind = "ddr" THEN PWriteDDR(p, v) ELSE IF kind = "dr" THEN PWriteDR(p, v) ELSE PExtIn(p, v)
      announce == q.written /\ (~p.written \/ OutVal(p) # OutVal(q))
  IN /\ port' = [port EXCEPT ![s] = q]
     /\ ann' = [ann EXCEPT ![s] = IF announce THEN OutVal(q) ELSE @]
     /\ hist' = IF Emit THEN Append(hist, <<kind, s, v>>) ELSE << <<kind, s, v>> >>   \* MC runs keep only the last operation

Next == \E s \in Slots, kind \in {"ddr", "dr", "pin"}, v \in Vals : Op(s, kind, v)
Spec == Init /\ [][Next]_vars

Bound == Len(hist) <= Depth

(* ---- properties ---- *)
InvRead == \A s \in Slots : ReadBitwise(port[s], ReadDR(port[s])) /\ ReadOK(port[s], ReadDR(port[s]))
InvAnn  == \A s \in Slots : port[s].written => ann[s] = OutVal(port[s])
(* external changes never disturb output bits; operations on one port never touch another *)
StepProps ==
  [][ /\ \A s \in Slots :
           (port'[s].ddr = port[s].ddr /\ port'[s].latch = port[s].latch /\ port'[s].written = port[s].written) =>
              \A i \in 0..7 : Bit(port[s].ddr, i) = 1 => Bit(ReadDR(port'[s]), i) = Bit(ReadDR(port[s]), i)
      /\ \A s \in Slots : hist' # hist /\ hist'[Len(hist')][2] # s => port'[s] = port[s] /\ ann'[s] = ann[s] ]_vars
EmitInv == (Emit /\ Len(hist) = Depth) => PrintT("REPLAY " \o ToJson(hist))
=============================================================================
