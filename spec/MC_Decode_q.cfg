SPECIFICATION Spec
CONSTANTS
  W2Grid = 257
INVARIANT InvFunction
INVARIANT InvTotal
CHECK_DEADLOCK FALSE
