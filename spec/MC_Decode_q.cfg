SPECIFICATION Spec
CONSTANTS
  W2Grid = 4099
INVARIANT InvFunction
INVARIANT InvTotal
CHECK_DEADLOCK FALSE
