------------------------------- MODULE TraceH8 -------------------------------
(***************************************************************************)
(* Trace validation: every event recorded from the REAL emulator (one      *)
(* ndjson line per linearisation point, written by /verif/harness) must    *)
(* be a step the specification allows.  TLC computes every expected value  *)
(* from the specification; the harness contains no oracle.                 *)
(*                                                                         *)
(* A mismatch does not stop validation: it is printed as one line          *)
(*   "MISMATCH <json>"   or   "DEVIATION <json>"  (a listed known finding) *)
(* and the trace spec resynchronises on the logged state, so the rest of   *)
(* the trace is still examined.  The final line "DONE <n>" certifies that  *)
(* all n events were consumed.                                             *)
(*                                                                         *)
(* Environment: TRACE = ndjson file, PROP = property id selecting which    *)
(* fields are compared (a check must never demand more than its property). *)
(***************************************************************************)
EXTENDS H8Obs, H8Deviations, Json, IOUtils, SequencesExt

Rec  == ndJsonDeserialize(IOEnv.TRACE)
PROP == IOEnv.PROP
NRec == Len(Rec)

VARIABLES l,      \* index of the next event
          cov     \* set of <<row index, expected outcome class>> seen so far (coverage accounting)
vars == <<l, cov>>

(***************************************************************************)
(* per-property acceptance of one single-step case                          *)
(***************************************************************************)
SemProps == {"C01", "C02", "C03", "C04", "C05", "C06", "C08", "C09", "C14", "C07"}
CaseOK(e, s, x) ==
  CASE PROP \in SemProps ->
         IF x.q = "odd" /\ PROP # "C09" THEN TRUE     \* only C09 speaks about word / long operands at odd addresses
         ELSE IF x.pw THEN TRUE      \* port DDR/DR written: peripheral semantics are H8Port's (C16), not judged here
         ELSE IF x.res = "ok" THEN e.res = "ok" /\ PostOK(e, s, x) /\ ConOK(e, x)
         ELSE IF x.res = "err" THEN e.res # "ok"
         ELSE TRUE
    [] PROP = "C15" -> e.res # "panic"
    [] PROP = "C20" -> (x.res \in {"ok", "any"} /\ e.res = "ok" /\ x.cyc >= 0) => e.st = x.cyc   \* "any" with a charge: register overlap
    [] PROP = "ALL" ->
         IF x.pw \/ x.q = "odd" THEN e.res # "panic"
         ELSE IF x.res = "ok" THEN e.res = "ok" /\ PostOK(e, s, x) /\ ConOK(e, x) /\ (x.cyc >= 0 => e.st = x.cyc)
         ELSE IF x.res = "err" THEN e.res = "err"
         ELSE e.res # "panic"
    [] OTHER -> FALSE

Report(kind, e, s, x, extra) ==
  PrintT(kind \o " " \o ToJson([id |-> e.id, prop |-> PROP, row |-> RowName(x), exp |-> x.res, got |-> e.res,
                                fields |-> Diffs(e, s, x), dev |-> extra,
                                expccr |-> x.ccr, exppc |-> x.pc, expcyc |-> x.cyc,
                                exper |-> [n \in 1..8 |-> x.er[n - 1]]]))

CaseEvent(e) ==
  LET s == StateOf(e)
      x == StepF(s)
      ok == CaseOK(e, s, x)
      dev == IF ok THEN "" ELSE DevName(e, s, x, PROP)
  IN /\ IF ok THEN TRUE
        ELSE IF dev # "" THEN Report("DEVIATION", e, s, x, dev)
        ELSE Report("MISMATCH", e, s, x, "")
     /\ cov' = cov \cup {<<x.row, x.res>>}

(***************************************************************************)
(* C19: one evaluation of the real cost function                            *)
(***************************************************************************)
CostEvent(e) ==
  LET br == [abwcr |-> e.br[1], astcr |-> e.br[2], wcrh |-> e.br[3], wcrl |-> e.br[4], drcra |-> e.br[5]]
      x  == CycleCost(e.kind, e.n, e.a, br)
      ok == x < 0 \/ (e.res = "ok" /\ e.v = x)
  IN /\ IF ok THEN TRUE
        ELSE PrintT("MISMATCH " \o ToJson([id |-> e.id, prop |-> PROP, row |-> "cost " \o e.kind, exp |-> "ok", got |-> e.res,
                                          fields |-> <<"v">>, expv |-> x, gotv |-> e.v, n |-> e.n, a |-> e.a, br |-> e.br]))
     /\ cov' = cov \cup {<<IF x < 0 THEN -2 ELSE -3, e.kind>>}

(***************************************************************************)
(* next-state relation                                                      *)
(***************************************************************************)
Consume ==
  /\ l <= NRec
  /\ LET e == Rec[l]
     IN CASE e.k = "case" -> CaseEvent(e)
          [] e.k = "cost" -> CostEvent(e)
          [] OTHER -> PrintT("MISMATCH " \o ToJson([id |-> l, prop |-> PROP, row |-> "unknown-event-kind"])) /\ UNCHANGED cov
  /\ l' = l + 1

Finish ==
  /\ l = NRec + 1
  /\ PrintT("COVERAGE " \o ToJson([rows |-> SetToSeq({<<CovName(p[1]), p[2]>> : p \in cov})]))
  /\ PrintT("DONE " \o ToString(NRec))
  /\ l' = l + 1
  /\ UNCHANGED cov

Init == l = 1 /\ cov = {}
Next == Consume \/ Finish
Spec == Init /\ [][Next]_vars
=============================================================================
