----------------------------- MODULE MC_CallRet -----------------------------
(***************************************************************************)
(* Call / return stack discipline at the design level (C05) and generator  *)
(* of call/return nesting words.  A word is a sequence over the five call  *)
(* forms (1 BSR d:8, 2 BSR d:16, 3 JSR @ERn, 4 JSR @aa:24, 5 JSR @@aa:8)   *)
(* and 0 = RTS.  The abstract stack holds <<return position, SP>> frames;  *)
(* checked: a return pops the frame pushed by the matching call and        *)
(* resumes right after it with SP restored; frames of live calls never     *)
(* overlap.                                                                *)
(***************************************************************************)
EXTENDS Integers, Sequences, FiniteSets, TLC, Json
CONSTANTS Forms, MaxDepth, MaxLen, Emit

VARIABLES stack, sp, pos, hist, resumeOK
vars == <<stack, sp, pos, hist, resumeOK>>
SP0 == 1000

Init == stack = <<>> /\ sp = SP0 /\ pos = 0 /\ hist = <<>> /\ resumeOK = TRUE
Call(f) == /\ Len(stack) < MaxDepth /\ Len(hist) < MaxLen
           /\ stack' = Append(stack, [ret |-> pos + 1, sp |-> sp, at |-> sp - 4])
           /\ sp' = sp - 4 /\ pos' = (pos + 1) * 7 + f      \* jump into a fresh subroutine
           /\ hist' = Append(hist, f) /\ UNCHANGED resumeOK
Ret == /\ Len(stack) > 0 /\ Len(hist) < MaxLen
       /\ LET fr == stack[Len(stack)]
          IN /\ pos' = fr.ret /\ sp' = sp + 4
             /\ resumeOK' = (resumeOK /\ sp + 4 = fr.sp /\ fr.at = sp)
       /\ stack' = SubSeq(stack, 1, Len(stack) - 1)
       /\ hist' = Append(hist, 0)
Next == Ret \/ \E f \in Forms : Call(f)
Spec == Init /\ [][Next]_vars

InvResume == resumeOK
InvFrames == \A i, j \in 1..Len(stack) : i # j => stack[i].at # stack[j].at          \* live frames are disjoint
InvSP == sp = SP0 - 4 * Len(stack)
EmitInv == (Emit /\ Len(stack) = 0 /\ Len(hist) > 0) => PrintT("REPLAY " \o ToJson(hist))
=============================================================================
