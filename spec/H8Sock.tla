------------------------------- MODULE H8Sock -------------------------------
(***************************************************************************)
(* Control socket (property C18): grammar and effect of incoming lines,    *)
(* framing of outgoing messages.  Lines and messages are byte sequences.   *)
(***************************************************************************)
EXTENDS H8Base, Sequences

Colon == 58
(* split a byte sequence at ':' *)
RECURSIVE SplitAt(_, _, _)
SplitAt(bs, i, cur) ==
  IF i > Len(bs) THEN <<cur>>
  ELSE IF bs[i] = Colon THEN <<cur>> \o SplitAt(bs, i + 1, <<>>)
  ELSE SplitAt(bs, i + 1, Append(cur, bs[i]))
Fields(line) == SplitAt(line, 1, <<>>)

S_cmd    == <<99, 109, 100>>
S_pause  == <<112, 97, 117, 115, 101>>
S_start  == <<115, 116, 97, 114, 116>>
S_stop   == <<115, 116, 111, 112>>
S_u8     == <<117, 56>>
S_ioport == <<105, 111, 112, 111, 114, 116>>

HexVal(c) == IF c >= 48 /\ c <= 57 THEN c - 48 ELSE IF c >= 97 /\ c <= 102 THEN c - 87 ELSE IF c >= 65 /\ c <= 70 THEN c - 55 ELSE -1
(* value of a hex field not above max (max < 2^24 * 256 is handled as <<hi, lo>> by ParseHex32);   *)
(* -1 = malformed (empty, non-hex character, out of range)                                          *)
RECURSIVE HexAcc(_, _, _, _)
HexAcc(bs, i, acc, max) ==
  IF i > Len(bs) THEN acc
  ELSE IF HexVal(bs[i]) < 0 THEN -1
  ELSE LET a == acc * 16 + HexVal(bs[i]) IN IF a > max THEN -1 ELSE HexAcc(bs, i + 1, a, max)
ParseHex(bs, max) == IF Len(bs) = 0 THEN -1 ELSE HexAcc(bs, 1, 0, max)
(* a field the property is silent about: a sign prefix that Rust's parser happens to accept *)
Dubious(bs) == Len(bs) > 0 /\ bs[1] \in {43, 45}

(* classification of one line:                                                                  *)
(*   [k |-> "pause" | "start" | "stop" | "u8" (a, v) | "pin" (p, v) | "ignore" | "dubious"]    *)
LineEffect(line) ==
  LET f == Fields(line)
  IN IF f[1] = S_cmd THEN
       IF Len(f) # 2 THEN [k |-> "ignore"]
       ELSE IF f[2] = S_pause THEN [k |-> "pause"] ELSE IF f[2] = S_start THEN [k |-> "start"]
       ELSE IF f[2] = S_stop THEN [k |-> "stop"] ELSE [k |-> "ignore"]
     ELSE IF f[1] = S_u8 THEN
       IF Len(f) # 3 THEN [k |-> "ignore"]
       ELSE IF Dubious(f[2]) \/ Dubious(f[3]) THEN [k |-> "dubious"]
       ELSE LET a == ParseHex(f[2], 16777215)      \* addresses at or above 2^24 are not accessible: the store is rejected
                v == ParseHex(f[3], 255)
            IN IF v < 0 THEN [k |-> "ignore"]
               ELSE IF a < 0 THEN [k |-> "ignore"]  \* malformed, or too large to be accessible
               ELSE [k |-> "u8", a |-> a, v |-> v]
     ELSE IF f[1] = S_ioport THEN
       IF Len(f) # 3 THEN [k |-> "ignore"]
       ELSE IF Dubious(f[2]) \/ Dubious(f[3]) THEN [k |-> "dubious"]
       ELSE LET p == ParseHex(f[2], 255)
                v == ParseHex(f[3], 255)
            IN IF p < 0 \/ v < 0 THEN [k |-> "ignore"] ELSE [k |-> "pin", p |-> p, v |-> v]
     ELSE [k |-> "ignore"]

(***************************************************************************)
(* outgoing framing: backslash -> backslash backslash, newline -> backslash *)
(* 'n', then a newline terminates the line                                  *)
(***************************************************************************)
BSL == 92  NL == 10  LowerN == 110
RECURSIVE Escape(_)
Escape(m) == IF Len(m) = 0 THEN <<>>
             ELSE (IF m[1] = BSL THEN <<BSL, BSL>> ELSE IF m[1] = NL THEN <<BSL, LowerN>> ELSE <<m[1]>>) \o Escape(Tail(m))
Frame(m) == Escape(m) \o <<NL>>
RECURSIVE Unescape(_)
Unescape(x) == IF Len(x) = 0 THEN <<>>
               ELSE IF x[1] = BSL /\ Len(x) >= 2 THEN (IF x[2] = LowerN THEN <<NL>> ELSE <<x[2]>>) \o Unescape(Tail(Tail(x)))
               ELSE <<x[1]>> \o Unescape(Tail(x))
RECURSIVE FrameAll(_)
FrameAll(ms) == IF Len(ms) = 0 THEN <<>> ELSE Frame(ms[1]) \o FrameAll(Tail(ms))
=============================================================================
