SPECIFICATION Spec
CONSTANTS
  D = 8
  Cora = 3
  T = 16
  MaxTotal = 150
  MaxLines = 0
CONSTRAINT Bound
INVARIANT Inv
PROPERTY Delivered
CHECK_DEADLOCK FALSE
