------------------------------- MODULE H8Cost -------------------------------
(***************************************************************************)
(* Bus-cycle cost function (property C19): the number of states charged    *)
(* for n bus cycles of one kind at one address, as a function of the bus   *)
(* controller registers ABWCR, ASTCR, WCRH, WCRL, DRCRA (read from the     *)
(* memory image, where the guest programs them).                           *)
(*   kinds: "I" fetch, "J" branch address, "K" stack, "L" byte data,       *)
(*          "M" word data, "N" internal                                    *)
(* A result of -1 means "the properties do not define this cost"           *)
(* (on-chip I/O register addresses).                                       *)
(* Which areas are DRAM space is the hardware manual's DRAS2-0 table       *)
(* (DRCRA bits 7-5): 000 none; 001 area 2; 010/011 areas 2,3; 100 areas    *)
(* 2-4; 101/110/111 areas 2-5.                                             *)
(***************************************************************************)
EXTENDS H8Map

Kinds == <<"I", "J", "K", "L", "M", "N">>

WaitOf(wcrh, wcrl, area) ==
  IF area < 4 THEN (wcrl \div (4 ^ area)) % 4 ELSE (wcrh \div (4 ^ (area - 4))) % 4

(* bus settings record taken from a memory image *)
BusRegs(mem) == [abwcr |-> Rd(mem, ABWCR), astcr |-> Rd(mem, ASTCR), wcrh |-> Rd(mem, WCRH),
                 wcrl |-> Rd(mem, WCRL), drcra |-> Rd(mem, DRCRA)]

CostDefined(br, a) ==
  /\ a >= 0 /\ a < A24
  /\ ~InIo(a)
DramAreas(dras) == CASE dras = 0 -> {} [] dras = 1 -> {2} [] dras \in {2, 3} -> {2, 3} [] dras = 4 -> {2, 3, 4} [] OTHER -> {2, 3, 4, 5}

CycleCost(kind, n, a, br) ==
  IF kind = "N" THEN n
  ELSE IF ~CostDefined(br, a) THEN -1
  ELSE IF InRam(a) THEN 2 * n
  ELSE LET area == AreaOf(a)
           w8   == Bit(br.abwcr, area) = 1
           dram == area \in DramAreas(br.drcra \div 32)
           s3   == Bit(br.astcr, area) = 1
           wait == WaitOf(br.wcrh, br.wcrl, area)
           acc  == IF w8 /\ kind \in {"I", "J", "K", "M"} THEN 2 ELSE 1
           per  == IF dram THEN 4 + wait ELSE IF s3 THEN 3 + wait ELSE 2
       IN n * acc * per

(* sum of costs; any undefined component makes the sum undefined (-1) *)
CostSum(cs) ==
  IF \E i \in 1..Len(cs) : cs[i] < 0 THEN -1
  ELSE LET RECURSIVE S(_)
           S(i) == IF i = 0 THEN 0 ELSE cs[i] + S(i - 1)
       IN S(Len(cs))

(***************************************************************************)
(* Charge of one instruction form: cy = <<I,J,K,L,M,N>> counts; fetch      *)
(* cycles at the instruction's own address, data cycles at the operand     *)
(* EA, stack cycles at the stack address, branch-address cycles at the     *)
(* vector address (property C20).  An address of -1 = that kind unused.    *)
(***************************************************************************)
InstrCost(cy, pcA, dataA, stackA, vecA, br) ==
  LET c(k, n, a) == IF n = 0 THEN 0 ELSE IF a < 0 /\ k # "N" THEN -1 ELSE CycleCost(k, n, a, br)
  IN CostSum(<< c("I", cy[1], pcA), c("J", cy[2], vecA), c("K", cy[3], stackA),
                c("L", cy[4], dataA), c("M", cy[5], dataA), c("N", cy[6], 0) >>)
=============================================================================
