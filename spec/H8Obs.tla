-------------------------------- MODULE H8Obs --------------------------------
(***************************************************************************)
(* Projection of the events logged by the harness onto the specification's *)
(* state, and the comparison of a logged post state with an expected       *)
(* result of H8Exec.  Shared by the trace specification and by the named   *)
(* deviations.                                                             *)
(***************************************************************************)
EXTENDS H8Exec

(* ---- projection of logged vectors ----------------------------------------- *)
(* pre / post = <<e0, r0, ..., e7, r7, ccr, pc_hi16, pc_lo16>>                *)
ErOf(p)  == [n \in 0..7 |-> <<p[2 * n + 1], p[2 * n + 2]>>]
CcrOf(p) == p[17]
PcOf(p)  == IF p[18] < 256 THEN p[18] * P16 + p[19] ELSE -1
StateOf(e) == [er |-> ErOf(e.pre), ccr |-> CcrOf(e.pre), pc |-> PcOf(e.pre), mem |-> MemOf(e.bg, e.pk)]

(* the logged memory diff agrees with one admissible write sequence w:     *)
(*  - every determined byte of w has its value in the final memory          *)
(*  - nothing outside the addresses of w changed                            *)
WrOK(w, diff, mem) ==
  LET dset == {diff[i][1] : i \in 1..Len(diff)}
      dval(a) == diff[CHOOSE i \in 1..Len(diff) : diff[i][1] = a][2]
      final(a) == IF a \in dset THEN dval(a) ELSE Rd(mem, a)
      wset == {w[i][1] : i \in 1..Len(w)}
  IN /\ \A i \in 1..Len(w) : w[i][2] = -1 \/ final(w[i][1]) = w[i][2]
     /\ dset \subseteq wset

PostOK(e, s, x) ==
  /\ ErOf(e.post) = x.er
  /\ (CcrOf(e.post) & x.cm) = (x.ccr & x.cm)
  /\ e.post[18] = x.pc \div P16 /\ e.post[19] = x.pc % P16
  /\ \E w \in x.wr : WrOK(w, e.wr, s.mem)
=============================================================================
