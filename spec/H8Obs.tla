-------------------------------- MODULE H8Obs --------------------------------
(***************************************************************************)
(* Projection of the events logged by the harness onto the specification's *)
(* state, and the comparison of a logged post state with an expected       *)
(* result of H8Exec.  Shared by the trace specification and by the named   *)
(* deviations.                                                             *)
(***************************************************************************)
EXTENDS H8Exec

(* ---- projection of logged vectors ----------------------------------------- *)
(* pre / post = <<e0, r0, ..., e7, r7, ccr, pc_hi16, pc_lo16>>                *)
ErOf(p)  == [n \in 0..7 |-> <<p[2 * n + 1], p[2 * n + 2]>>]
CcrOf(p) == p[17]
PcOf(p)  == IF p[18] < 256 THEN p[18] * P16 + p[19] ELSE -1
StateOf(e) == [er |-> ErOf(e.pre), ccr |-> CcrOf(e.pre), pc |-> PcOf(e.pre), mem |-> MemOf(e.bg, e.pk)]

(* the logged memory diff agrees with one admissible write sequence w:     *)
(*  - every determined byte of w has its value in the final memory          *)
(*  - nothing outside the addresses of w changed                            *)
WrOK(w, diff, mem) ==
  LET dset == {diff[i][1] : i \in 1..Len(diff)}
      dval(a) == diff[CHOOSE i \in 1..Len(diff) : diff[i][1] = a][2]
      final(a) == IF a \in dset THEN dval(a) ELSE Rd(mem, a)
      wset == {w[i][1] : i \in 1..Len(w)}
  IN /\ \A i \in 1..Len(w) : w[i][2] = -1 \/ final(w[i][1]) = w[i][2]
     /\ dset \subseteq wset

PostOK(e, s, x) ==
  /\ ErOf(e.post) = x.er
  /\ (CcrOf(e.post) & x.cm) = (x.ccr & x.cm)
  /\ e.post[18] = x.pc \div P16 /\ e.post[19] = x.pc % P16
  /\ \E w \in x.wr : WrOK(w, e.wr, s.mem)
StdoutPrefix == <<115, 116, 100, 111, 117, 116, 58>>      \* "stdout:"
(* console bytes and captured messages of one step: only the MES write call emits anything; *)
(* its bytes appear once on the console and as one stdout: message (an empty write may      *)
(* announce nothing)                                                                        *)
ConOK(e, x) ==
  /\ e.con = x.con
  /\ IF x.sys = "write" THEN e.msgs = <<StdoutPrefix \o x.con>> \/ (Len(x.con) = 0 /\ e.msgs = <<>>)
     ELSE e.msgs = <<>>


(* which fields of the expectation are wrong (for the report) *)
Diffs(e, s, x) ==
  (IF e.res # x.res THEN <<"res">> ELSE <<>>)
  \o (IF e.res = "ok" /\ x.res = "ok" THEN
        (IF ErOf(e.post) # x.er THEN <<"er">> ELSE <<>>)
        \o (IF (CcrOf(e.post) & x.cm) # (x.ccr & x.cm) THEN <<"ccr">> ELSE <<>>)
        \o (IF e.post[18] # x.pc \div P16 \/ e.post[19] # x.pc % P16 THEN <<"pc">> ELSE <<>>)
        \o (IF ~(\E w \in x.wr : WrOK(w, e.wr, s.mem)) THEN <<"wr">> ELSE <<>>)
        \o (IF ~ConOK(e, x) THEN <<"con">> ELSE <<>>)
        \o (IF x.cyc >= 0 /\ e.st # x.cyc THEN <<"st">> ELSE <<>>)
      ELSE <<>>)


CovName(i) == IF i > 0 THEN Forms[i].id ELSE IF i = 0 THEN "undefined" ELSE IF i = -1 THEN "fetch-fault"
              ELSE IF i = -2 THEN "cost-undefined" ELSE IF i = -3 THEN "cost" ELSE "other"
RowName(x) == IF x.row > 0 THEN Forms[x.row].id ELSE IF x.row = 0 THEN "undefined" ELSE "fetch-fault"

=============================================================================
