------------------------------- MODULE MC_Cost -------------------------------
(***************************************************************************)
(* Design-level checks of the cost model.                                  *)
(*  C19  H8Cost.CycleCost against a DECLARATIVE reading of the property:   *)
(*       a table of per-access states per bus mode, linearity in n,        *)
(*       independence of the other areas' settings and of the position     *)
(*       inside the area.                                                  *)
(*  C20  the charge of an executed instruction (H8Exec.StepF) does not     *)
(*       depend on operand values: every row of the instruction table is   *)
(*       executed on two register files / memory contents that address     *)
(*       the same areas, under several bus settings and code placements,   *)
(*       and the two charges must be equal; changing the settings of an    *)
(*       area the instruction does not touch must not change the charge.   *)
(* Seeds in Init, cases as successor states (all TLC workers share them).  *)
(***************************************************************************)
EXTENDS H8Exec
CONSTANTS Groups

VARIABLE c

(* ------------------------------------------------------------------ C19 *)
AreaBase(a) == a * 2097152
(* first, interior and last byte of each external area, outside on-chip RAM / I/O *)
Reps(a) == IF a = 7 THEN {AreaBase(7), AreaBase(7) + 1000001, 16695295}        \* ... H'FEDFFF, below the I/O registers
           ELSE {AreaBase(a), AreaBase(a) + 1000001, AreaBase(a) + 2097151}
RamReps == {16760608, 16768000, 16776991}                                        \* H'FFBF20, inside, H'FFFF1F
Fill(k, area, bitv) ==   \* an 8-bit register: every other area's bit from pattern k, this area's bit = bitv
  LET pat == CASE k = 0 -> 0 [] k = 1 -> 255 [] k = 2 -> 165 [] OTHER -> 90
  IN pat - Bit(pat, area) * (2 ^ area) + bitv * (2 ^ area)
FillW(k, area, wv) ==    \* WCRH:WCRL as a 16-bit value: 2 bits per area
  LET pat == CASE k = 0 -> 0 [] k = 1 -> 65535 [] k = 2 -> 42330 [] OTHER -> 23205
      old == (pat \div (4 ^ area)) % 4
  IN pat - old * (4 ^ area) + wv * (4 ^ area)
MkBr(k, area, w8, s3, wv, ds) ==
  LET w == FillW(k, area, wv)
  IN [abwcr |-> Fill(k, area, w8), astcr |-> Fill(k, area, s3), wcrh |-> w \div 256, wcrl |-> w % 256, drcra |-> ds * 32 + (IF k = 1 THEN 31 ELSE 0)]
WordKinds == {"I", "J", "K", "M"}
(* the property's table *)
Expected(kind, area, w8, s3, wv, ds, ram) ==
  IF kind = "N" THEN 1
  ELSE IF ram THEN 2
  ELSE LET accesses == IF w8 = 1 /\ kind \in WordKinds THEN 2 ELSE 1
           (* the DRAS table row by row: which areas each of the eight encodings makes DRAM space *)
           dramSpace == area \in << {}, {2}, {2, 3}, {2, 3}, {2, 3, 4}, {2, 3, 4, 5}, {2, 3, 4, 5}, {2, 3, 4, 5} >>[ds + 1]
           per == IF dramSpace THEN 4 + wv ELSE IF s3 = 1 THEN 3 + wv ELSE 2
       IN accesses * per
CostCase(area, kind, w8, s3, wv, ds) ==
  /\ \A a \in Reps(area), k \in 0..3, n \in 1..5 :
       LET br == MkBr(k, area, w8, s3, wv, ds)
       IN CycleCost(kind, n, a, br) = n * Expected(kind, area, w8, s3, wv, ds, FALSE)
  /\ area = 7 => \A a \in RamReps, k \in 0..3, n \in 1..5 :
       CycleCost(kind, n, a, MkBr(k, area, w8, s3, wv, ds)) = n * Expected(kind, area, w8, s3, wv, ds, TRUE)

(* ------------------------------------------------------------------ C20 *)
Settings == << <<255, 251, 255, 207, 224>>, <<0, 0, 0, 0, 0>>, <<251, 255, 255, 223, 32>>, <<5, 250, 85, 166, 32>>,
               <<254, 1, 170, 103, 0>>, <<4, 255, 0, 16, 224>> >>
BusRuns(k) == << <<ABWCR, <<Settings[k][1]>>>>, <<ASTCR, <<Settings[k][2]>>>>, <<WCRH, <<Settings[k][3]>>>>,
                 <<WCRL, <<Settings[k][4]>>>>, <<DRCRA, <<Settings[k][5]>>>> >>
WBytes(ws) == [k \in 1..(2 * Len(ws)) |-> IF k % 2 = 1 THEN ws[(k + 1) \div 2] \div 256 ELSE ws[k \div 2] % 256]
(* the row's fixed bits; register fields 0, except that a second-operand register field gets 1 when it  *)
(* would otherwise name the address register (overlap is not specified)                                *)
RowWords(ri) ==
  LET n == Len(Forms[ri].w)
      overlap == Forms[ri].a[1] \in {"INC", "DEC"} \/ Forms[ri].b[1] \in {"INC", "DEC"}
  IN [i \in 1..n |-> Forms[ri].w[i].v + (IF overlap /\ i = n THEN 1 ELSE 0)]
PcAt(sel) == IF sel = 0 THEN 16764928 ELSE 4259840                 \* H'FFD000 (on-chip RAM) / H'410000 (DRAM)
(* every register points into one region: data pointers, stack pointer *)
RegsAt(sel, variant) ==
  LET base == IF sel = 0 THEN 16769024 ELSE 5242880                \* H'FFE000 / H'500000
  IN [n \in 0..7 |-> <<base \div P16, (base % P16) + 64 * n + (IF variant = 1 THEN 16 ELSE 0)>>]
StateFor(ri, pcsel, regsel, k, variant) ==
  [er |-> RegsAt(regsel, variant), ccr |-> IF variant = 1 THEN 175 ELSE 128, pc |-> PcAt(pcsel),
   mem |-> MemOf(IF variant = 1 THEN "tag" ELSE "zero", << <<PcAt(pcsel), WBytes(RowWords(ri))>> >> \o BusRuns(k))]
ChargeCase(ri, pcsel, regsel, k) ==
  LET x0 == StepF(StateFor(ri, pcsel, regsel, k, 0))
      x1 == StepF(StateFor(ri, pcsel, regsel, k, 1))
  IN (x0.res = "ok" /\ x1.res = "ok" /\ x0.cyc >= 0 /\ x1.cyc >= 0 /\ x0.q = "" /\ x1.q = "") => x0.cyc = x1.cyc
(* non-vacuity / sensitivity: with everything in on-chip RAM the charge is 2 x (bus cycles) + internal,  *)
(* whatever the external areas are set to                                                              *)
RamCase(ri, k) ==
  LET x == StepF(StateFor(ri, 0, 0, k, 0))
      cy == Forms[ri].cy
  IN (x.res = "ok" /\ x.cyc >= 0 /\ x.q = "" /\ cy[2] = 0                 \* J cycles read the vector area (area 0),
      /\ Forms[ri].a[1] \notin {"A16", "A24"} /\ Forms[ri].b[1] \notin {"A16", "A24"}) =>     \* and so does @aa:16/24 = 0
        x.cyc = 2 * (cy[1] + cy[3] + cy[4] + cy[5]) + cy[6]

Seeds ==
  (IF "C19" \in Groups THEN {<<"seed", "C19", area, kind>> : area \in 0..7, kind \in {"I", "J", "K", "L", "M", "N"}} ELSE {})
  \cup (IF "C20" \in Groups THEN {<<"seed", "C20", ri, 0>> : ri \in 1..NForms} ELSE {})
Expand(sd) ==
  IF sd[2] = "C19" THEN {<<"C19", sd[3], sd[4], w8, s3, wv, ds>> : w8 \in {0, 1}, s3 \in {0, 1}, wv \in 0..3, ds \in 0..7}
  ELSE {<<"C20", sd[3], pcsel, regsel, k>> : pcsel \in {0, 1}, regsel \in {0, 1}, k \in 1..6}
Init == c \in Seeds
Next == c[1] = "seed" /\ c' \in Expand(c)
Spec == Init /\ [][Next]_c
Inv ==
  CASE c[1] = "seed" -> TRUE
    [] c[1] = "C19" -> CostCase(c[2], c[3], c[4], c[5], c[6], c[7])
    [] OTHER -> ChargeCase(c[2], c[3], c[4], c[5]) /\ (c[3] = 0 /\ c[4] = 0 => RamCase(c[2], c[5]))
=============================================================================
