---------------------------- MODULE H8Deviations ----------------------------
(***************************************************************************)
(* Named deviations: the EXACT wrong behaviour of every genuine defect of  *)
(* the emulator that is recorded (known_findings.json) instead of repaired *)
(* (repairing them would break assertions of the repository's own tests,   *)
(* which must keep passing unedited).  A mismatching event is accepted     *)
(* through a deviation only if it matches that relation exactly; any other *)
(* wrong behaviour of the same instruction is still a MISMATCH.            *)
(*   e : logged event, s : pre state, x : StepF(s), prop : property id     *)
(***************************************************************************)
EXTENDS H8Obs

RowOf(x) == Forms[x.row]

(* SHAL sets V to the operand's OLD sign bit instead of "sign bit changed"; *)
(* everything else (result, N, Z, C, other flags, pc) as specified.         *)
Dev_ShalV(e, s, x) ==
  /\ x.row > 0 /\ RowOf(x).mn = "SHAL" /\ x.res = "ok" /\ e.res = "ok"
  /\ LET r  == RowOf(x)
         dv == RegRead(s.er, r.sz, Field(WordsAt(s), r.b))
         y  == [x EXCEPT !.ccr = CcrWith(x.ccr, -1, -1, -1, Sg(r.sz, dv), -1)]
     IN PostOK(e, s, y) /\ e.con = <<>> /\ e.msgs = <<>>

(* STC.W CCR,@-ERd is executed as a POST-increment store: the word is       *)
(* written at ERd (low 24 bits) and ERd is then increased by 2; the data    *)
(* cycle is costed at the unmasked ERd (an upper byte makes it fail).       *)
Dev_StcPreDec(e, s, x, prop) ==
  /\ x.row > 0 /\ RowOf(x).id = "STC.W CCR,@-ERd"
  /\ LET r   == RowOf(x)
         ws  == WordsAt(s)
         n   == AReg(ws, r.b)
         ea  == Low24(s.er[n])
         up  == s.er[n][1] >= 256
         y   == [x EXCEPT !.res = "ok", !.er = [s.er EXCEPT ![n] = AddSmall32(@, 2)], !.ccr = s.ccr, !.pc = s.pc + 4,
                          !.wr = { << <<ea, s.ccr>>, <<ea + 1, -1>> >>, << <<ea, -1>>, <<ea + 1, s.ccr>> >> },
                          !.cyc = InstrCost(r.cy, s.pc, ea, -1, -1, BusRegs(s.mem))]
     IN IF up \/ ~CanAccess(ea, 2) THEN e.res = "err"
        ELSE IF IsPortReg(ea) \/ IsPortReg(ea + 1) THEN e.res = "ok"       \* the (wrongly placed) store hits a port register: its effects are C16's business
        ELSE IF prop = "C20" THEN e.res = "ok" /\ (y.cyc >= 0 => e.st = y.cyc)
        ELSE e.res = "ok" /\ PostOK(e, s, y) /\ e.con = <<>> /\ e.msgs = <<>>

DevName(e, s, x, prop) ==
  IF Dev_ShalV(e, s, x) THEN "SHAL_V_is_old_sign_bit"
  ELSE IF Dev_StcPreDec(e, s, x, prop) THEN "STC_W_predecrement_executed_as_postincrement"
  ELSE ""
=============================================================================
