------------------------------- MODULE H8Exec -------------------------------
(***************************************************************************)
(* Operational semantics of one instruction of the emulated H8/300H CPU,   *)
(* as a pure function StepF(s) of a machine-state record                   *)
(*     s = [er, ccr, pc, mem]                                              *)
(*       er  : [0..7 -> <<hi16, lo16>>]   general registers ER0-ER7        *)
(*       ccr : 0..255                     I UI H U N Z V C                 *)
(*       pc  : 0..2^24-1, or -1 if the program counter is outside 24 bits  *)
(*       mem : [bg, ov]                   see H8Map                        *)
(* Result record:                                                          *)
(*   res  "ok"  : post state fully determined by the fields below          *)
(*        "err" : the instruction must be rejected with an error           *)
(*        "any" : the listed properties are silent here                    *)
(*   er, ccr, pc : post state (pc as 24-bit integer)                       *)
(*   cm   : mask of the CCR bits that are determined (UI is free after     *)
(*          exception entry)                                               *)
(*   wr   : set of admissible write sequences <<addr, byte>>, byte = -1    *)
(*          meaning "not determined by any property"                       *)
(*   cyc  : charged states (-1 = not defined by C19/C20)                   *)
(*   con  : bytes emitted on the console / as one stdout message           *)
(*   row  : index into Forms (0 = undefined encoding, -1 = fetch fault)    *)
(*   pw   : TRUE iff a port DDR/DR register is written (peripheral side    *)
(*          effects are specified by H8Port, not here)                     *)
(*   sys  : "write" for the MES write system call (con = its bytes), else ""*)
(*   q    : "odd" = word / long operand at an odd address (see QualR)       *)
(***************************************************************************)
EXTENDS H8Forms, H8Cost

MemKinds == {"IND", "D16", "D24", "INC", "DEC", "A8", "A16", "A24"}

(* ---- registers --------------------------------------------------------- *)
RegRead(er, sz, f) ==
  IF sz = 1 THEN (IF f < 8 THEN <<0, er[f][2] \div 256>> ELSE <<0, er[f - 8][2] % 256>>)
  ELSE IF sz = 2 THEN (IF f < 8 THEN <<0, er[f][2]>> ELSE <<0, er[f - 8][1]>>)
  ELSE er[f % 8]
RegWrite(er, sz, f, v) ==
  IF sz = 1 THEN (IF f < 8 THEN [er EXCEPT ![f] = <<@[1], (v[2] % 256) * 256 + (@[2] % 256)>>]
                  ELSE [er EXCEPT ![f - 8] = <<@[1], (@[2] \div 256) * 256 + (v[2] % 256)>>])
  ELSE IF sz = 2 THEN (IF f < 8 THEN [er EXCEPT ![f] = <<@[1], v[2]>>]
                       ELSE [er EXCEPT ![f - 8] = <<v[2], @[2]>>])
  ELSE [er EXCEPT ![f % 8] = v]

(* ---- instruction words -------------------------------------------------- *)
WordAt(mem, a) ==
  IF a >= 0 /\ a + 1 < A24 /\ Accessible(a) /\ Accessible(a + 1) THEN Rd(mem, a) * 256 + Rd(mem, a + 1) ELSE -1
WordsAt(s) == [i \in 1..5 |-> IF s.pc < 0 THEN -1 ELSE WordAt(s.mem, s.pc + 2 * (i - 1))]

(* ---- operand resolution -------------------------------------------------- *)
Field(ws, d) == Nib(ws[d[2]], d[3])
AReg(ws, d)  == Field(ws, d) % 8                       \* address register number
Disp24(ws, xi) == (ws[xi] % 256) * P16 + ws[xi + 1]
(* effective address of a memory operand, given the (already updated) register file *)
EAOf(er, ws, d, sz) ==
  CASE d[1] = "IND" -> Low24(er[AReg(ws, d)])
    [] d[1] = "D16" -> (Low24(er[AReg(ws, d)]) + Sext16(ws[d[4]]) + A24) % A24
    [] d[1] = "D24" -> (Low24(er[AReg(ws, d)]) + Disp24(ws, d[4])) % A24
    [] d[1] = "INC" -> Low24(er[AReg(ws, d)])
    [] d[1] = "DEC" -> Low24(AddSmall32(er[AReg(ws, d)], 0 - sz))
    [] d[1] = "A8"  -> 16776960 + (ws[d[2]] % 256)
    [] d[1] = "A16" -> IF ws[d[4]] < 32768 THEN ws[d[4]] ELSE 16711680 + ws[d[4]]
    [] d[1] = "A24" -> Disp24(ws, d[4])
    [] OTHER -> -1
(* register file after the operand's address-register side effect *)
ErAfter(er, ws, d, sz) ==
  IF d[1] = "INC" THEN [er EXCEPT ![AReg(ws, d)] = AddSmall32(@, sz)]
  ELSE IF d[1] = "DEC" THEN [er EXCEPT ![AReg(ws, d)] = AddSmall32(@, 0 - sz)]
  ELSE er
IsMem(d) == d[1] \in MemKinds

(* ---- result constructors -------------------------------------------------- *)
Res(res, er, ccr, cm, pc, wr, cyc, con, row, pw) ==
  [res |-> res, er |-> er, ccr |-> ccr, cm |-> cm, pc |-> pc, wr |-> wr, cyc |-> cyc, con |-> con, row |-> row, pw |-> pw, sys |-> "", q |-> ""]
SysR(r, sys) == [r EXCEPT !.sys = sys]
(* qualifier "odd": a word / long operand at an odd effective address.  The result given is the plain *)
(* composition of the consecutive bytes at EA (what C09 states); C01 and the other per-instruction     *)
(* properties quantify over even operand addresses only, so their checks treat a qualified result as   *)
(* "any".                                                                                              *)
QualR(r, q) == [r EXCEPT !.q = q, !.cyc = -1]
ErrR(s, row) == Res("err", s.er, s.ccr, 255, s.pc, {<<>>}, -1, <<>>, row, FALSE)
AnyR(s, row) == Res("any", s.er, s.ccr, 255, s.pc, {<<>>}, -1, <<>>, row, FALSE)
OkR(er, ccr, pc, wr, cyc, row) == Res("ok", er, ccr, 255, pc, {wr}, cyc, <<>>, row, \E i \in 1..Len(wr) : IsPortReg(wr[i][1]))

FlagsNZ(sz, v) == [n |-> Sg(sz, v), z |-> B2N(IsZeroV(Trunc(sz, v)))]

(* ---- Bcc condition table (operational form) ------------------------------ *)
CondTaken(cc, ccr) ==
  LET c == Bit(ccr, 0)  v == Bit(ccr, 1)  z == Bit(ccr, 2)  n == Bit(ccr, 3)
      nv == (n + v) % 2
  IN CASE cc = 0 -> TRUE          [] cc = 1 -> FALSE
       [] cc = 2 -> c = 0 /\ z = 0  [] cc = 3 -> c = 1 \/ z = 1
       [] cc = 4 -> c = 0          [] cc = 5 -> c = 1
       [] cc = 6 -> z = 0          [] cc = 7 -> z = 1
       [] cc = 8 -> v = 0          [] cc = 9 -> v = 1
       [] cc = 10 -> n = 0         [] cc = 11 -> n = 1
       [] cc = 12 -> nv = 0        [] cc = 13 -> nv = 1
       [] cc = 14 -> z = 0 /\ nv = 0  [] cc = 15 -> z = 1 \/ nv = 1

(* 16 x 16 -> 32 bit unsigned product without leaving TLC's integer range *)
Mul16(a, b) ==
  LET p0 == (a % 256) * b
      p1 == (a \div 256) * b
      t  == p0 + (p1 % 256) * 256
  IN <<(p1 \div 256) + (t \div P16), t % P16>>

(* exception entry shared by TRAPA #1-3 and interrupt acceptance (C06):    *)
(* frame = CCR in the top byte, 24-bit return address below, at SP-4       *)
EntryR(s, ret, vec, cyc, row) ==
  LET sp1 == AddSmall32(s.er[7], -4)
      fa  == Low24(sp1)
      va  == 4 * vec
  IN IF ~CanAccess(fa, 4) \/ ~CanAccess(va, 4) THEN ErrR(s, row)
     ELSE LET tgt == Low24(RdV(s.mem, va, 4))
              wr  == << <<fa, s.ccr>>, <<fa + 1, ret \div P16>>, <<fa + 2, (ret \div 256) % 256>>, <<fa + 3, ret % 256>> >>
          IN IF \E i \in 0..3 : fa + i \in va..(va + 3) THEN AnyR(s, row)    \* frame overwrites its own vector
             ELSE Res("ok", [s.er EXCEPT ![7] = sp1], CcrWith(s.ccr, -1, -1, -1, -1, -1) - Bit(s.ccr, 7) * 128 + 128,
                      191, tgt, {wr}, cyc, <<>>, row, \E i \in 0..3 : IsPortReg(fa + i))    \* a frame pushed into port registers: C16's business

(* ---- UTF-8 validity of a byte sequence (MES write, C14), local formulation -- *)
IsCont(b) == b >= 128 /\ b <= 191
LeadLen(b) == IF b <= 127 THEN 1 ELSE IF b >= 194 /\ b <= 223 THEN 2 ELSE IF b >= 224 /\ b <= 239 THEN 3
              ELSE IF b >= 240 /\ b <= 244 THEN 4 ELSE 0
SecondOk(l, b2) == CASE l = 224 -> b2 >= 160 [] l = 237 -> b2 <= 159 [] l = 240 -> b2 >= 144 [] l = 244 -> b2 <= 143 [] OTHER -> TRUE
IsUtf8(bs) ==
  LET n == Len(bs)
  IN \A i \in 1..n :
       IF IsCont(bs[i])
       THEN \E d \in 1..3 : i - d >= 1 /\ LeadLen(bs[i - d]) > d /\ \A k \in 1..(d - 1) : IsCont(bs[i - k])
       ELSE /\ LeadLen(bs[i]) > 0
            /\ i + LeadLen(bs[i]) - 1 <= n
            /\ \A k \in 1..(LeadLen(bs[i]) - 1) : IsCont(bs[i + k])
            /\ (LeadLen(bs[i]) > 1 => SecondOk(bs[i], bs[i + 1]))

(***************************************************************************)
(* Exec: semantics of row r (index ri) with instruction words ws           *)
(***************************************************************************)
Exec(s, ri, ws) ==
  LET r    == Forms[ri]
      sz   == r.sz
      len  == RowLen(r)
      npc  == s.pc + len                       \* address of the following instruction
      br   == BusRegs(s.mem)
      a    == r.a
      b    == r.b
      C    == Bit(s.ccr, 0)
      (* the single memory operand of the form, if any *)
      md   == IF IsMem(a) THEN a ELSE b
      hasM == IsMem(a) \/ IsMem(b)
      msz  == sz
      er1  == IF hasM THEN ErAfter(s.er, ws, md, msz) ELSE s.er
      ea   == IF hasM THEN EAOf(s.er, ws, md, msz) ELSE -1
      odd  == hasM /\ msz > 1 /\ ea % 2 = 1
      accOK == hasM => CanAccess(ea, msz)
      cost(dataA, stackA, vecA) == InstrCost(r.cy, s.pc, dataA, stackA, vecA, br)
      (* data register overlapping the address register of a +/- operand *)
      dreg == IF a[1] = "R" THEN Field(ws, a) ELSE IF b[1] = "R" THEN Field(ws, b) ELSE -1
      ovl  == md[1] \in {"INC", "DEC"} /\ dreg >= 0 /\ dreg % 8 = AReg(ws, md)
  IN
  IF npc > A24 THEN AnyR(s, ri)
  ELSE IF r.st = "unimpl" THEN ErrR(s, ri)
  ELSE CASE
  (* ------------------------------------------------------------------ MOV *)
  r.mn = "MOV" ->
    IF ovl THEN (* the register result is not specified, but the operand's effective address - hence the *)
                (* charge (C20) - is: the address register's value before / after the adjustment       *)
                (IF accOK /\ ~odd THEN [AnyR(s, ri) EXCEPT !.cyc = cost(ea, -1, -1)] ELSE AnyR(s, ri))
    ELSE IF ~accOK THEN ErrR(s, ri)
    ELSE LET v == CASE a[1] = "R" -> RegRead(s.er, sz, Field(ws, a))
                    [] a[1] = "I8" -> <<0, ws[1] % 256>>
                    [] a[1] = "I16" -> <<0, ws[a[4]]>>
                    [] a[1] = "I32" -> <<ws[a[4]], ws[a[4] + 1]>>
                    [] OTHER -> RdV(s.mem, ea, sz)
             f == FlagsNZ(sz, v)
             ccr2 == CcrWith(s.ccr, -1, f.n, f.z, 0, -1)
             res == IF IsMem(b) THEN OkR(er1, ccr2, npc, WrSeq(ea, sz, v), cost(ea, -1, -1), ri)
                    ELSE OkR(RegWrite(er1, sz, Field(ws, b), v), ccr2, npc, <<>>, cost(ea, -1, -1), ri)
         IN IF odd THEN QualR(res, "odd") ELSE res
  (* ------------------------------------------------ ADD SUB CMP ADDX *)
  [] r.mn \in {"ADD", "SUB", "CMP", "ADDX"} ->
    LET sv == CASE a[1] = "R" -> RegRead(s.er, sz, Field(ws, a))
                [] a[1] = "I8" -> <<0, ws[1] % 256>>
                [] a[1] = "I16" -> <<0, ws[a[4]]>>
                [] OTHER -> <<ws[a[4]], ws[a[4] + 1]>>
        df == Field(ws, b)
        dv == RegRead(s.er, sz, df)
        q  == IF r.mn = "ADD" THEN AddV(sz, dv, sv, 0)
              ELSE IF r.mn = "ADDX" THEN AddV(sz, dv, sv, C)
              ELSE SubV(sz, dv, sv, 0)
        zr == B2N(IsZeroV(q.r))
        z  == IF r.mn = "ADDX" THEN Bit(s.ccr, 2) * zr ELSE zr
        ccr2 == CcrWith(s.ccr, q.h, Sg(sz, q.r), z, q.v, q.c)
        er2 == IF r.mn = "CMP" THEN s.er ELSE RegWrite(s.er, sz, df, q.r)
    IN OkR(er2, ccr2, npc, <<>>, cost(-1, -1, -1), ri)
  (* ------------------------------------------------------------------ NEG *)
  [] r.mn = "NEG" ->
    LET df == Field(ws, b)
        dv == RegRead(s.er, sz, df)
        q  == SubV(sz, VZero, dv, 0)
    IN OkR(RegWrite(s.er, sz, df, q.r), CcrWith(s.ccr, q.h, Sg(sz, q.r), B2N(IsZeroV(q.r)), q.v, q.c), npc, <<>>, cost(-1, -1, -1), ri)
  (* -------------------------------------------------------------- INC DEC *)
  [] r.mn \in {"INC", "DEC"} ->
    LET df == Field(ws, b)
        dv == RegRead(s.er, sz, df)
        q  == IF r.mn = "INC" THEN AddV(sz, dv, V(r.x), 0) ELSE SubV(sz, dv, V(r.x), 0)
    IN OkR(RegWrite(s.er, sz, df, q.r), CcrWith(s.ccr, -1, Sg(sz, q.r), B2N(IsZeroV(q.r)), q.v, -1), npc, <<>>, cost(-1, -1, -1), ri)
  (* ------------------------------------------------------------ ADDS SUBS *)
  [] r.mn \in {"ADDS", "SUBS"} ->
    LET n == Field(ws, b) % 8
    IN OkR([s.er EXCEPT ![n] = AddSmall32(@, IF r.mn = "ADDS" THEN r.x ELSE 0 - r.x)], s.ccr, npc, <<>>, cost(-1, -1, -1), ri)
  (* ---------------------------------------------------------------- MULXU *)
  [] r.mn = "MULXU" ->
    IF sz = 1
    THEN LET rs == RegRead(s.er, 1, Field(ws, a))[2]
             df == Field(ws, b)
             rd == RegRead(s.er, 2, df)[2] % 256
         IN OkR(RegWrite(s.er, 2, df, <<0, rd * rs>>), s.ccr, npc, <<>>, cost(-1, -1, -1), ri)
    ELSE LET rs == RegRead(s.er, 2, Field(ws, a))[2]
             n  == Field(ws, b) % 8
         IN OkR([s.er EXCEPT ![n] = Mul16(s.er[n][2], rs)], s.ccr, npc, <<>>, cost(-1, -1, -1), ri)
  (* ---------------------------------------------------------------- DIVXU *)
  [] r.mn = "DIVXU" ->
    IF sz = 1
    THEN LET rs == RegRead(s.er, 1, Field(ws, a))[2]
             df == Field(ws, b)
             rd == RegRead(s.er, 2, df)[2]
         IN IF rs = 0 \/ rd \div rs > 255 THEN AnyR(s, ri)
            ELSE OkR(RegWrite(s.er, 2, df, <<0, (rd % rs) * 256 + (rd \div rs)>>),
                     CcrWith(s.ccr, -1, Bit(rs, 7), 0, -1, -1), npc, <<>>, cost(-1, -1, -1), ri)
    ELSE LET rs == RegRead(s.er, 2, Field(ws, a))[2]
             n  == Field(ws, b) % 8
             hi == s.er[n][1]
             lo == s.er[n][2]
         IN IF rs = 0 \/ hi >= rs THEN AnyR(s, ri)        \* zero divisor / quotient does not fit
            ELSE LET t1 == hi * 256 + (lo \div 256)
                     q1 == t1 \div rs
                     t2 == (t1 % rs) * 256 + (lo % 256)
                     q0 == t2 \div rs
                 IN OkR([s.er EXCEPT ![n] = <<t2 % rs, q1 * 256 + q0>>],
                        CcrWith(s.ccr, -1, Bit(rs, 15), 0, -1, -1), npc, <<>>, cost(-1, -1, -1), ri)
  (* ----------------------------------------------------------- AND OR XOR *)
  [] r.mn \in {"AND", "OR", "XOR"} ->
    LET sv == CASE a[1] = "R" -> RegRead(s.er, sz, Field(ws, a))
                [] a[1] = "I8" -> <<0, ws[1] % 256>>
                [] a[1] = "I16" -> <<0, ws[a[4]]>>
                [] OTHER -> <<ws[a[4]], ws[a[4] + 1]>>
        df == Field(ws, b)
        dv == RegRead(s.er, sz, df)
        q  == IF r.mn = "AND" THEN AndV(dv, sv) ELSE IF r.mn = "OR" THEN OrV(dv, sv) ELSE XorV(dv, sv)
    IN OkR(RegWrite(s.er, sz, df, q), CcrWith(s.ccr, -1, Sg(sz, q), B2N(IsZeroV(q)), 0, -1), npc, <<>>, cost(-1, -1, -1), ri)
  [] r.mn = "NOT" ->
    LET df == Field(ws, b)
        q  == NotV(sz, RegRead(s.er, sz, df))
    IN OkR(RegWrite(s.er, sz, df, q), CcrWith(s.ccr, -1, Sg(sz, q), B2N(IsZeroV(q)), 0, -1), npc, <<>>, cost(-1, -1, -1), ri)
  [] r.mn = "EXTU" ->
    LET df == Field(ws, b)
        dv == RegRead(s.er, sz, df)
        q  == IF sz = 2 THEN <<0, dv[2] % 256>> ELSE <<0, dv[2]>>
    IN OkR(RegWrite(s.er, sz, df, q), CcrWith(s.ccr, -1, 0, B2N(IsZeroV(q)), 0, -1), npc, <<>>, cost(-1, -1, -1), ri)
  (* ------------------------------------------------------ shifts / rotates *)
  [] r.mn \in {"SHAL", "SHLL", "SHAR", "SHLR", "ROTL", "ROTR", "ROTXL", "ROTXR"} ->
    LET df == Field(ws, b)
        dv == RegRead(s.er, sz, df)
        q  == CASE r.mn \in {"SHAL", "SHLL"} -> ShlV(sz, dv, 0)
                [] r.mn = "SHLR" -> ShrV(sz, dv, 0)
                [] r.mn = "SHAR" -> ShrV(sz, dv, Sg(sz, dv))
                [] r.mn = "ROTL" -> ShlV(sz, dv, Sg(sz, dv))
                [] r.mn = "ROTR" -> ShrV(sz, dv, dv[2] % 2)
                [] r.mn = "ROTXL" -> ShlV(sz, dv, C)
                [] OTHER -> ShrV(sz, dv, C)
        v  == IF r.mn = "SHAL" THEN B2N(Sg(sz, dv) # Sg2(sz, dv)) ELSE 0
    IN OkR(RegWrite(s.er, sz, df, q.r), CcrWith(s.ccr, -1, Sg(sz, q.r), B2N(IsZeroV(q.r)), v, q.c), npc, <<>>, cost(-1, -1, -1), ri)
  (* ------------------------------------------------------ bit manipulation *)
  [] r.mn \in {"BSET", "BCLR", "BNOT", "BTST", "BST", "BIST", "BLD", "BILD", "BAND", "BIAND", "BOR", "BIOR", "BXOR", "BIXOR"} ->
    IF IsMem(b) /\ ~CanAccess(ea, 1) THEN ErrR(s, ri)
    ELSE
    LET n   == IF a[1] = "B3" THEN Field(ws, a) % 8 ELSE RegRead(s.er, 1, Field(ws, a))[2] % 8
        val == IF IsMem(b) THEN Rd(s.mem, ea) ELSE RegRead(s.er, 1, Field(ws, b))[2]
        bt  == Bit(val, n)
        setb(x) == val - bt * (2 ^ n) + x * (2 ^ n)
        wb(nv) == IF IsMem(b) THEN OkR(s.er, s.ccr, npc, << <<ea, nv>> >>, cost(ea, -1, -1), ri)
                  ELSE OkR(RegWrite(s.er, 1, Field(ws, b), <<0, nv>>), s.ccr, npc, <<>>, cost(ea, -1, -1), ri)
        fl(ccr2) == OkR(s.er, ccr2, npc, <<>>, cost(ea, -1, -1), ri)
        setC(x) == fl(CcrWith(s.ccr, -1, -1, -1, -1, x))
    IN CASE r.mn = "BSET" -> wb(setb(1))
         [] r.mn = "BCLR" -> wb(setb(0))
         [] r.mn = "BNOT" -> wb(setb(1 - bt))
         [] r.mn = "BST"  -> wb(setb(C))
         [] r.mn = "BIST" -> wb(setb(1 - C))
         [] r.mn = "BTST" -> fl(CcrWith(s.ccr, -1, -1, 1 - bt, -1, -1))
         [] r.mn = "BLD"  -> setC(bt)
         [] r.mn = "BILD" -> setC(1 - bt)
         [] r.mn = "BAND" -> setC(C * bt)
         [] r.mn = "BIAND" -> setC(C * (1 - bt))
         [] r.mn = "BOR"  -> setC(Max2(C, bt))
         [] r.mn = "BIOR" -> setC(Max2(C, 1 - bt))
         [] r.mn = "BXOR" -> setC((C + bt) % 2)
         [] OTHER          -> setC((C + 1 - bt) % 2)
  (* ------------------------------------------------------------------ Bcc *)
  [] r.mn = "BCC" ->
    LET cc   == Nib(ws[1], r.x)
        disp == IF a[1] = "PD8" THEN Sext8(ws[1] % 256) ELSE Sext16(ws[a[4]])
        tgt  == npc + disp
    IN IF ~CondTaken(cc, s.ccr) THEN OkR(s.er, s.ccr, npc, <<>>, cost(-1, -1, -1), ri)
       ELSE IF tgt < 0 \/ tgt >= A24 \/ tgt % 2 = 1 THEN AnyR(s, ri)
       ELSE OkR(s.er, s.ccr, tgt, <<>>, cost(-1, -1, -1), ri)
  (* ---------------------------------------------------------- JMP JSR BSR *)
  [] r.mn \in {"JMP", "JSR", "BSR"} ->
    LET va   == IF a[1] = "VEC" THEN ws[1] % 256 ELSE -1
        vok  == va < 0 \/ CanAccess(va, 4)
        tgt  == CASE a[1] = "IND" -> Low24(s.er[AReg(ws, a)])
                  [] a[1] = "J24" -> (ws[1] % 256) * P16 + ws[2]
                  [] a[1] = "VEC" -> IF vok THEN Low24(RdV(s.mem, va, 4)) ELSE 0
                  [] a[1] = "PD8" -> npc + Sext8(ws[1] % 256)
                  [] OTHER -> npc + Sext16(ws[a[4]])
        sp1  == AddSmall32(s.er[7], -4)
        fa   == Low24(sp1)
    IN IF ~vok THEN ErrR(s, ri)
       ELSE IF tgt < 0 \/ tgt >= A24 \/ tgt % 2 = 1 THEN AnyR(s, ri)
       ELSE IF r.mn = "JMP" THEN OkR(s.er, s.ccr, tgt, <<>>, cost(-1, -1, va), ri)
       ELSE IF a[1] = "IND" /\ AReg(ws, a) = 7 THEN AnyR(s, ri)           \* JSR @ER7
       ELSE IF ~CanAccess(fa, 4) THEN ErrR(s, ri)
       ELSE IF va >= 0 /\ (\E i \in 0..3 : fa + i \in va..(va + 3)) THEN AnyR(s, ri)
       ELSE OkR([s.er EXCEPT ![7] = sp1], s.ccr, tgt,
                << <<fa, -1>>, <<fa + 1, npc \div P16>>, <<fa + 2, (npc \div 256) % 256>>, <<fa + 3, npc % 256>> >>,
                cost(-1, fa, va), ri)
  (* -------------------------------------------------------------- RTS RTE *)
  [] r.mn \in {"RTS", "RTE"} ->
    LET fa == Low24(s.er[7])
    IN IF ~CanAccess(fa, 4) THEN ErrR(s, ri)
       ELSE LET fr  == RdV(s.mem, fa, 4)
                tgt == Low24(fr)
                sp1 == AddSmall32(s.er[7], 4)
            IN IF tgt % 2 = 1 THEN AnyR(s, ri)
               ELSE OkR([s.er EXCEPT ![7] = sp1], IF r.mn = "RTE" THEN fr[1] \div 256 ELSE s.ccr, tgt, <<>>, cost(-1, fa, -1), ri)
  (* ---------------------------------------------------------------- TRAPA *)
  [] r.mn = "TRAPA" ->
    LET n == Nib(ws[1], 3) % 4
    IN IF n # 0
       THEN LET sp1 == AddSmall32(s.er[7], -4)
            IN EntryR(s, npc, 8 + n, cost(-1, Low24(sp1), 4 * (8 + n)), ri)
       ELSE (* MES system call emulation (C14) *)
         LET id  == s.er[0]
             ap  == s.er[1]
             apa == Low24(ap)
         IN IF id = <<0, 104>> THEN
              IF ap[1] >= 256 THEN AnyR(s, ri)
              ELSE IF ~CanAccess(apa, 12) THEN ErrR(s, ri)
              ELSE LET buf == RdV(s.mem, apa + 4, 4)
                       ln  == RdV(s.mem, apa + 8, 4)
                       ba  == Low24(buf)
                   IN IF buf[1] >= 256 \/ ln[1] > 0 \/ ln[2] > 8192 THEN AnyR(s, ri)
                      ELSE IF ~CanAccess(ba, ln[2]) THEN ErrR(s, ri)
                      ELSE LET bytes == [i \in 1..ln[2] |-> Rd(s.mem, ba + i - 1)]
                           IN IF ~IsUtf8(bytes) THEN AnyR(s, ri)
                              ELSE SysR(Res("ok", s.er, s.ccr, 255, npc, {<<>>}, -1, bytes, ri, FALSE), "write")
            ELSE IF id = <<0, 113>> THEN
              IF ap[1] >= 256 THEN AnyR(s, ri)
              ELSE IF ~CanAccess(apa, 8) THEN ErrR(s, ri)
              ELSE LET vn == RdV(s.mem, apa, 4)
                       ha == RdV(s.mem, apa + 4, 4)
                   IN IF vn[1] > 0 \/ vn[2] < 1 \/ vn[2] > 63 THEN Res("ok", s.er, s.ccr, 255, npc, {<<>>}, -1, <<>>, ri, FALSE)
                      ELSE IF ha[1] >= 256 THEN AnyR(s, ri)
                      ELSE LET va == 4 * vn[2]
                               ga == 16776464 + va               \* H'FFFD10 + 4v: GOT save slot (not fixed by any property)
                           IN Res("ok", s.er, s.ccr, 255, npc,
                                  {<< <<va, -1>>, <<va + 1, ha[1] % 256>>, <<va + 2, ha[2] \div 256>>, <<va + 3, ha[2] % 256>>,
                                      <<ga, -1>>, <<ga + 1, -1>>, <<ga + 2, -1>>, <<ga + 3, -1>> >>}, -1, <<>>, ri, FALSE)
            ELSE ErrR(s, ri)
  (* ------------------------------------------------------------------ STC *)
  [] r.mn = "STC" ->
    IF sz = 1 THEN OkR(RegWrite(s.er, 1, Field(ws, b), <<0, s.ccr>>), s.ccr, npc, <<>>, cost(-1, -1, -1), ri)
    ELSE IF odd THEN AnyR(s, ri)
    ELSE IF ~accOK THEN ErrR(s, ri)
    ELSE (* the byte lane of the CCR inside the stored word is not fixed by any listed property *)
         Res("ok", er1, s.ccr, 255, npc,
             { << <<ea, s.ccr>>, <<ea + 1, -1>> >>, << <<ea, -1>>, <<ea + 1, s.ccr>> >> },
             cost(ea, -1, -1), <<>>, ri, IsPortReg(ea) \/ IsPortReg(ea + 1))
  [] OTHER -> AnyR(s, ri)

(***************************************************************************)
(* StepF: fetch, decode, execute                                           *)
(***************************************************************************)
StepF(s) ==
  IF s.pc >= 0 /\ s.pc % 2 = 1 THEN AnyR(s, 0)
  ELSE LET ws == WordsAt(s)
           ri == Decode(ws)
       IN IF ri = -1 THEN ErrR(s, -1)
          ELSE IF ri = 0 THEN AnyR(s, 0)
          ELSE Exec(s, ri, ws)

(* interrupt acceptance (C06 / C10): entry through vector v, return address = current pc *)
AcceptF(s, v) ==
  IF s.pc < 0 THEN AnyR(s, 0) ELSE EntryR(s, s.pc, v, -1, 0)
=============================================================================
