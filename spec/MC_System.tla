------------------------------ MODULE MC_System ------------------------------
(***************************************************************************)
(* Composition, design level: run loop + 8-bit timer + interrupt           *)
(* controller + CPU context + control lines in ONE state machine, one      *)
(* TLA+ step per pass of Cpu::run's loop (poll; if not paused: accept a    *)
(* due request, execute one instruction, charge it to the total, to the    *)
(* sync residue and to the peripherals).  It ties together what C10, C13   *)
(* and C17 say separately:                                                 *)
(*   OneTimeBase   the timer has counted floor((total + p) / D) times,     *)
(*                 where total is the very sum the sync messages are       *)
(*                 derived from (peripherals and sync share one clock),    *)
(*                 however the charges fall and whenever the run is        *)
(*                 paused / resumed                                        *)
(*   ExactlyOnce   every compare-match event with the enable bit set is    *)
(*                 either still pending or has been entered - never lost,  *)
(*                 never duplicated; acceptance only with I clear          *)
(*   Transparent   the main program executes its instructions in its own   *)
(*                 order whatever interrupts arrive (the sequence of main  *)
(*                 positions executed is the interrupt-free one)           *)
(*   SyncOnce      number of sync messages = total div T                   *)
(*   Delivered     (liveness, WF) a pending request is eventually entered  *)
(*                 unless the run stays paused or ends                     *)
(* The guest: a cyclic main program of K instructions with charges Ch[i],  *)
(* a two-instruction handler (clear the flag; RTE) with charges Hc.        *)
(* The conformance side of the same composition is TraceRun on the timer   *)
(* guest programs (run-program) - this module is its bounded design model. *)
(***************************************************************************)
EXTENDS Integers, Sequences, FiniteSets, TLC
CONSTANTS D,        \* prescaler divisor
          Cora,     \* compare value (clear on match A, CMIEA set): a match every Cora counts
          T,        \* sync interval (scaled)
          MaxTotal, \* exploration bound on the total
          MaxLines  \* control lines the controller may send

K == 4
Ch == <<3, 5, 2, 7>>       \* charges of the main instructions (positions 1..K, cyclic)
Hc == <<4, 6>>             \* charges of the handler's two instructions
Lines == {"pause", "start"}

VARIABLES mpos,     \* next main position 1..K
          hpos,     \* 0 = in main, 1..2 = next handler instruction
          I,        \* interrupt mask
          savedI,   \* I saved by the entry (restored by RTE)
          total, resid, nsync,
          p,        \* phase the prescaler started with
          r, tcnt, flag, counts,
          pend, matches, entered,
          mainSeq,  \* main positions executed so far
          paused, inbox, sent,
          accMasked \* history: an acceptance happened while I was set
vars == <<mpos, hpos, I, savedI, total, resid, nsync, p, r, tcnt, flag, counts, pend, matches, entered, mainSeq, paused, inbox, sent, accMasked>>

Init == /\ mpos = 1 /\ hpos = 0 /\ I = 0 /\ savedI = 0 /\ total = 0 /\ resid = 0 /\ nsync = 0
        /\ p \in 0..(D - 1) /\ r = p /\ tcnt = 0 /\ flag = 0 /\ counts = 0
        /\ pend = <<>> /\ matches = 0 /\ entered = 0 /\ mainSeq = <<>> /\ paused = FALSE /\ inbox = <<>> /\ sent = 0 /\ accMasked = FALSE

RECURSIVE Apply(_, _)
Apply(ls, pz) == IF ls = <<>> THEN pz ELSE Apply(Tail(ls), Head(ls) = "pause")

(* the timer sees c states: q counts, each may be a compare match *)
RECURSIVE Count(_, _, _, _)
Count(q, tc, fl, ev) ==      \* returns <<tcnt, flag, match events>>
  IF q = 0 THEN <<tc, fl, ev>>
  ELSE IF tc + 1 = Cora THEN Count(q - 1, 0, 1, ev + 1) ELSE Count(q - 1, tc + 1, fl, ev)

Pass ==
  LET pz == Apply(inbox, paused)
  IN /\ inbox' = <<>> /\ paused' = pz
     /\ IF pz THEN UNCHANGED <<mpos, hpos, I, savedI, total, resid, nsync, r, tcnt, flag, counts, pend, matches, entered, mainSeq, accMasked>>
        ELSE
          LET accept == pend # <<>> /\ I = 0
              (* after the acceptance (if any): where execution continues *)
              h1   == IF accept THEN 1 ELSE hpos
              I1   == IF accept THEN 1 ELSE I
              sI1  == IF accept THEN I ELSE savedI
              pend1 == IF accept THEN Tail(pend) ELSE pend
              inH  == h1 > 0
              c    == IF inH THEN Hc[h1] ELSE Ch[mpos]
              (* instruction effects *)
              flagW == IF inH /\ h1 = 1 THEN 0 ELSE flag                \* handler instruction 1 clears the flag
              rte   == inH /\ h1 = 2
              q    == (r + c) \div D
              tk   == Count(q, tcnt, flagW, 0)
          IN /\ hpos' = IF rte THEN 0 ELSE IF inH THEN h1 + 1 ELSE 0
             /\ I' = IF rte THEN sI1 ELSE I1
             /\ savedI' = sI1
             /\ mpos' = IF inH THEN mpos ELSE (mpos % K) + 1
             /\ mainSeq' = IF inH THEN mainSeq ELSE Append(mainSeq, mpos)
             /\ total' = total + c
             /\ IF resid + c >= T THEN resid' = resid + c - T /\ nsync' = nsync + 1 ELSE resid' = resid + c /\ nsync' = nsync
             /\ r' = (r + c) % D /\ counts' = counts + q
             /\ tcnt' = tk[1] /\ flag' = tk[2]
             /\ matches' = matches + tk[3]
             /\ pend' = pend1 \o [i \in 1..tk[3] |-> 36]
             /\ entered' = IF accept THEN entered + 1 ELSE entered
             /\ accMasked' = (accMasked \/ (accept /\ I = 1))
  /\ UNCHANGED <<p, sent>>
Arrive(l) == sent < MaxLines /\ inbox' = Append(inbox, l) /\ sent' = sent + 1
             /\ UNCHANGED <<mpos, hpos, I, savedI, total, resid, nsync, p, r, tcnt, flag, counts, pend, matches, entered, mainSeq, paused, accMasked>>
Next == Pass \/ \E l \in Lines : Arrive(l)
Spec == Init /\ [][Next]_vars /\ WF_vars(Pass)
Bound == total <= MaxTotal

OneTimeBase == counts = (total + p) \div D /\ r = (total + p) % D
ExactlyOnce == entered + Len(pend) = matches /\ ~accMasked /\ (hpos > 0 => I = 1)
Transparent == \A i \in 1..Len(mainSeq) : mainSeq[i] = ((i - 1) % K) + 1
SyncOnce == nsync = total \div T /\ resid = total % T
(* the match events are exactly the multiples of Cora among the counts (clear on match) *)
Matches == matches = counts \div Cora /\ tcnt = counts % Cora
Inv == OneTimeBase /\ ExactlyOnce /\ Transparent /\ SyncOnce /\ Matches
(* liveness without a controller: every request is entered *)
Delivered == \A n \in 1..3 : (matches >= n) ~> (entered >= n)
=============================================================================
