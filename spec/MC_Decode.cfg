SPECIFICATION Spec
CONSTANTS
  W2Grid = 1
INVARIANT InvFunction
INVARIANT InvTotal
CHECK_DEADLOCK FALSE
