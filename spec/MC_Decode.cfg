SPECIFICATION Spec
CONSTANTS
  W2Grid = 17
INVARIANT InvFunction
INVARIANT InvTotal
CHECK_DEADLOCK FALSE
