------------------------------- MODULE MC_Step -------------------------------
(***************************************************************************)
(* Design-level checks of the instruction semantics StepF (H8Exec) against *)
(* DECLARATIVE statements of the properties, written independently of the  *)
(* operational definitions (bit predicates, explicit condition table,      *)
(* frame conditions "nothing else changes"):                               *)
(*   C01  MOV register / @ERn / @ERn+ / @-ERn forms, B/W/L                 *)
(*   C04  the 14 bit-manipulation mnemonics, exhaustive value x bit x C    *)
(*   C05  Bcc condition table 16 x 256, both displacement sizes            *)
(*   C06  TRAPA #n followed by RTE is the identity on the context          *)
(*   C08  effective-address arithmetic against a byte-wise formulation     *)
(*   C14  TRAPA #0: write / set_handler (+ later acceptance) / other calls  *)
(* One state per case (chosen in Init); the invariant is the property.     *)
(***************************************************************************)
EXTENDS H8Exec
CONSTANTS Groups, Vals8, Ccrs

VARIABLE c
PC0 == 16760832                           \* H'FFC000
RowIdx(id) == CHOOSE i \in 1..NForms : Forms[i].id = id
SetNib(wd, p, n) == wd - Nib(wd, p) * (16 ^ (4 - p)) + n * (16 ^ (4 - p))
WBytes(ws) == [k \in 1..(2 * Len(ws)) |-> IF k % 2 = 1 THEN ws[(k + 1) \div 2] \div 256 ELSE ws[k \div 2] % 256]
Marker == [n \in 0..7 |-> <<4369 * (n + 1) + 7, 257 * (n + 3) + 1024 * n + 5>>]      \* all 16 byte / word views differ
MkS(ws, er, ccr, runs) == [er |-> er, ccr |-> ccr, pc |-> PC0, mem |-> MemOf("tag", << <<PC0, WBytes(ws)>> >> \o runs)]
SetB(er, f, v) == RegWrite(er, 1, f, <<0, v>>)
ByteOf(er, f) == IF f < 8 THEN er[f][2] \div 256 ELSE er[f - 8][2] % 256
(* all sixteen byte views except f are unchanged, and so are the E halves *)
OtherBytesSame(er1, er2, f) == /\ \A g \in 0..15 : g # f => ByteOf(er1, g) = ByteOf(er2, g)
                               /\ \A n \in 0..7 : er1[n][1] = er2[n][1]
OtherFlagsSame(c1, c2, bits) == \A i \in 0..7 : i \notin bits => Bit(c1, i) = Bit(c2, i)

(* ------------------------------------------------------------------ C04 *)
BitMns == <<"BSET", "BCLR", "BNOT", "BTST", "BST", "BIST", "BLD", "BILD", "BAND", "BIAND", "BOR", "BIOR", "BXOR", "BIXOR">>
BitCase(mn, v, n, cf, f) ==
  LET ri == RowIdx(mn \o " #xx:3,Rd")
      w1 == SetNib(SetNib(Forms[ri].w[1].v, 3, Nib(Forms[ri].w[1].v, 3) + n), 4, f)
      ccr == 164 + cf                                   \* I=1 H=1 Z=1 plus C
      s == MkS(<<w1>>, SetB(Marker, f, v), ccr, <<>>)
      x == StepF(s)
      nv == ByteOf(x.er, f)
      b == Bit(v, n)
      only(bitval) == /\ Bit(nv, n) = bitval /\ \A i \in 0..7 : i # n => Bit(nv, i) = Bit(v, i)
      cnew(val) == Bit(x.ccr, 0) = val /\ OtherFlagsSame(ccr, x.ccr, {0}) /\ nv = v
  IN /\ x.res = "ok" /\ x.pc = PC0 + 2 /\ x.wr = {<<>>} /\ OtherBytesSame(s.er, x.er, f)
     /\ CASE mn = "BSET" -> only(1) /\ x.ccr = ccr
          [] mn = "BCLR" -> only(0) /\ x.ccr = ccr
          [] mn = "BNOT" -> only(1 - b) /\ x.ccr = ccr
          [] mn = "BST"  -> only(cf) /\ x.ccr = ccr
          [] mn = "BIST" -> only(1 - cf) /\ x.ccr = ccr
          [] mn = "BTST" -> nv = v /\ Bit(x.ccr, 2) = 1 - b /\ OtherFlagsSame(ccr, x.ccr, {2})
          [] mn = "BLD"  -> cnew(b)
          [] mn = "BILD" -> cnew(1 - b)
          [] mn = "BAND" -> cnew(IF cf = 1 /\ b = 1 THEN 1 ELSE 0)
          [] mn = "BIAND" -> cnew(IF cf = 1 /\ b = 0 THEN 1 ELSE 0)
          [] mn = "BOR"  -> cnew(IF cf = 1 \/ b = 1 THEN 1 ELSE 0)
          [] mn = "BIOR" -> cnew(IF cf = 1 \/ b = 0 THEN 1 ELSE 0)
          [] mn = "BXOR" -> cnew(IF cf # b THEN 1 ELSE 0)
          [] OTHER        -> cnew(IF cf = b THEN 1 ELSE 0)

(* ------------------------------------------------------------------ C05 *)
(* the manual's condition table as sets of (N, Z, V, C) tuples *)
NZVC == {<<n, z, v, cf>> : n \in {0, 1}, z \in {0, 1}, v \in {0, 1}, cf \in {0, 1}}
CondSet(cc) ==
  CASE cc = 0 -> NZVC                                     [] cc = 1 -> {}
    [] cc = 2 -> {t \in NZVC : t[4] + t[2] = 0}           [] cc = 3 -> {t \in NZVC : t[4] + t[2] >= 1}
    [] cc = 4 -> {t \in NZVC : t[4] = 0}                  [] cc = 5 -> {t \in NZVC : t[4] = 1}
    [] cc = 6 -> {t \in NZVC : t[2] = 0}                  [] cc = 7 -> {t \in NZVC : t[2] = 1}
    [] cc = 8 -> {t \in NZVC : t[3] = 0}                  [] cc = 9 -> {t \in NZVC : t[3] = 1}
    [] cc = 10 -> {t \in NZVC : t[1] = 0}                 [] cc = 11 -> {t \in NZVC : t[1] = 1}
    [] cc = 12 -> {t \in NZVC : t[1] = t[3]}              [] cc = 13 -> {t \in NZVC : t[1] # t[3]}
    [] cc = 14 -> {t \in NZVC : t[2] = 0 /\ t[1] = t[3]}  [] OTHER -> {t \in NZVC : t[2] = 1 \/ t[1] # t[3]}
BccCase(cc, ccr, form, d) ==
  LET taken == <<Bit(ccr, 3), Bit(ccr, 2), Bit(ccr, 1), Bit(ccr, 0)>> \in CondSet(cc)
      ws == IF form = 8 THEN <<16384 + cc * 256 + ((d + 256) % 256)>> ELSE <<22528 + cc * 16, (d + P16) % P16>>
      s == MkS(ws, Marker, ccr, <<>>)
      x == StepF(s)
      npc == PC0 + 2 * Len(ws)
  IN x.res = "ok" /\ x.er = Marker /\ x.ccr = ccr /\ x.wr = {<<>>} /\ x.pc = (IF taken THEN npc + d ELSE npc)

(* ------------------------------------------------------------------ C06 *)
ApplyWr(s, x) == [er |-> x.er, ccr |-> x.ccr, pc |-> x.pc, mem |-> WrAll(s.mem, CHOOSE w \in x.wr : TRUE)]
ExcCase(n, ccr, sp, top) ==
  LET h == 16769024                                            \* handler at H'FFE000 holds RTE
      vec == 32 + 4 * n
      er0 == [Marker EXCEPT ![7] = sp]
      s == MkS(<<22272 + n * 16>>, er0, ccr, << <<vec, <<top, h \div P16, (h \div 256) % 256, h % 256>>>>, <<h, <<86, 112>>>> >>)
      x1 == StepF(s)
      s1 == ApplyWr(s, x1)
      x2 == StepF(s1)
      fa == Low24(AddSmall32(sp, -4))
  IN /\ x1.res = "ok" /\ x1.pc = h /\ Bit(x1.ccr, 7) = 1 /\ OtherFlagsSame(ccr, x1.ccr, {6, 7})
     /\ x1.er = [er0 EXCEPT ![7] = AddSmall32(sp, -4)]
     /\ \E w \in x1.wr : /\ Len(w) = 4 /\ w[1] = <<fa, ccr>> /\ w[2][2] * P16 + w[3][2] * 256 + w[4][2] = PC0 + 2
                         /\ \A i \in 1..4 : w[i][1] = fa + i - 1
     /\ x2.res = "ok" /\ x2.er = er0 /\ x2.ccr = ccr /\ x2.pc = PC0 + 2 /\ x2.wr = {<<>>}      \* the round trip

(* ------------------------------------------------------------------ C08 *)
(* byte-wise formulation: add the three low bytes with carry, drop the carry out of the third *)
Add24Bytes(a, d) ==
  LET s0 == (a % 256) + (d % 256)
      s1 == ((a \div 256) % 256) + ((d \div 256) % 256) + (s0 \div 256)
      s2 == ((a \div P16) % 256) + ((d \div P16) % 256) + (s1 \div 256)
  IN (s2 % 256) * P16 + (s1 % 256) * 256 + (s0 % 256)
EaCase(up, base, d16) ==
  LET er == [Marker EXCEPT ![3] = <<up * 256 + base \div P16, base % P16>>]
      ws == <<28160 + 3 * 16, d16>>                          \* MOV.B @(d:16,ER3),R0H
      sext == IF d16 >= 32768 THEN 16711680 + d16 ELSE d16   \* sign extension to 24 bits
      ws24 == <<30720 + 3 * 16, 27168, d16 % 256, (d16 * 251 + 77) % P16>>
      d24 == (d16 % 256) * P16 + ((d16 * 251 + 77) % P16)
  IN /\ EAOf(er, ws, <<"D16", 1, 3, 2>>, 1) = Add24Bytes(base, sext)
     /\ EAOf(er, ws24, <<"D24", 1, 3, 3>>, 1) = Add24Bytes(base, d24)
     /\ EAOf(er, ws, <<"IND", 1, 3, 0>>, 1) = base
     /\ EAOf(er, <<8192 + (d16 % 256)>>, <<"A8", 1, 0, 0>>, 1) = 16776960 + (d16 % 256)
     /\ EAOf(er, <<0, d16>>, <<"A16", 0, 0, 2>>, 1) = sext

(* ------------------------------------------------------------------ C01 *)
MovRR(sz, fs, fd, v, ccr) ==
  LET id == IF sz = 1 THEN "MOV.B Rs,Rd" ELSE IF sz = 2 THEN "MOV.W Rs,Rd" ELSE "MOV.L ERs,ERd"
      w1 == SetNib(SetNib(Forms[RowIdx(id)].w[1].v, 3, IF sz = 4 THEN 8 + (fs % 8) ELSE fs), 4, IF sz = 4 THEN fd % 8 ELSE fd)
      er0 == RegWrite(Marker, sz, fs, v)
      x == StepF(MkS(<<w1>>, er0, ccr, <<>>))
  IN /\ x.res = "ok" /\ x.pc = PC0 + 2 /\ x.wr = {<<>>}
     /\ RegRead(x.er, sz, fd) = Trunc(sz, v)
     /\ x.er = RegWrite(er0, sz, fd, v)                                \* nothing but the destination view
     /\ Bit(x.ccr, 3) = Sg(sz, v) /\ Bit(x.ccr, 2) = B2N(IsZeroV(Trunc(sz, v))) /\ Bit(x.ccr, 1) = 0
     /\ OtherFlagsSame(ccr, x.ccr, {1, 2, 3})
MovMem(sz, mode, fd, an, v, ccr, up) ==
  LET oi == IF sz = 1 THEN (IF mode = "ind" THEN 104 ELSE 108) ELSE IF sz = 2 THEN (IF mode = "ind" THEN 105 ELSE 109) ELSE (IF mode = "ind" THEN 105 ELSE 109)
      ea == 16764192 + 2 * an                                         \* H'FFCD20 + ...
      base == IF mode = "dec" THEN ea + sz ELSE ea
      erA == [Marker EXCEPT ![an] = <<up * 256 + base \div P16, base % P16>>]
      load == mode # "dec"
      er0 == IF load THEN erA ELSE RegWrite(erA, sz, fd, v)
      wl == (oi * 256) + (IF load THEN 0 ELSE 128) + an * 16 + (IF sz = 4 THEN fd % 8 ELSE fd)
      ws == IF sz = 4 THEN <<256, wl>> ELSE <<wl>>
      data == IF sz = 1 THEN <<v[2] % 256>> ELSE IF sz = 2 THEN <<v[2] \div 256, v[2] % 256>> ELSE <<v[1] \div 256, v[1] % 256, v[2] \div 256, v[2] % 256>>
      x == StepF(MkS(ws, er0, ccr, IF load THEN << <<ea, data>> >> ELSE <<>>))
      erB == IF mode = "inc" THEN [er0 EXCEPT ![an] = AddSmall32(@, sz)] ELSE IF mode = "dec" THEN [er0 EXCEPT ![an] = AddSmall32(@, 0 - sz)] ELSE er0
      dreg == IF sz = 4 THEN fd % 8 ELSE fd % 8
  IN dreg = an \/                                                      \* overlapping data / address register: not specified
     (/\ x.res = "ok" /\ x.pc = PC0 + 2 * Len(ws)
      /\ (load => x.wr = {<<>>} /\ x.er = RegWrite(erB, sz, fd, v))
      /\ (~load => x.er = erB /\ x.wr = {[i \in 1..sz |-> <<ea + i - 1, data[i]>>]})      \* big-endian, exactly the operand bytes
      /\ Bit(x.ccr, 3) = Sg(sz, v) /\ Bit(x.ccr, 2) = B2N(IsZeroV(Trunc(sz, v))) /\ Bit(x.ccr, 1) = 0
      /\ OtherFlagsSame(ccr, x.ccr, {1, 2, 3}))

ValsOf(sz) == IF sz = 1 THEN {<<0, v>> : v \in Vals8} ELSE IF sz = 2 THEN {<<0, v * 257>> : v \in Vals8} \cup {<<0, 32768>>, <<0, 255>>}
              ELSE {<<v * 257, (v * 131 + 1) % P16>> : v \in Vals8} \cup {<<32768, 0>>, <<0, 0>>, <<0, 65535>>}
(* TLC checks the invariant of INITIAL states in a single thread, so Init only holds seeds; every seed *)
(* expands into its cases as successor states, which all workers share.                                 *)
(* ------------------------------------------------------------------ C14 *)
Be4(x) == <<x \div 16777216, (x \div P16) % 256, (x \div 256) % 256, x % 256>>
Texts == << <<>>, <<65>>, <<72, 105, 10>>, <<0, 92, 110, 34, 58, 9, 126>>, <<195, 169, 226, 130, 172, 240, 159, 152, 128>> >>   \* "", "A", "Hi\n", NUL \ n " : TAB ~, 2/3/4-byte UTF-8
MesWrite(ti, bufsel, ccr) ==
  LET blk == 16764192                                            \* argument block H'FFCD20
      buf == IF bufsel = 0 THEN 16768000 ELSE 5242881              \* on-chip RAM / DRAM (odd address)
      txt == Texts[ti]
      er0 == [Marker EXCEPT ![0] = <<0, 104>>, ![1] = <<blk \div P16, blk % P16>>]
      s == MkS(<<22272>>, er0, ccr, << <<blk, Be4(1) \o Be4(buf) \o Be4(Len(txt))>> >> \o (IF txt = <<>> THEN <<>> ELSE << <<buf, txt>> >>))
      x == StepF(s)
  IN x.res = "ok" /\ x.con = txt /\ x.sys = "write" /\ x.pc = PC0 + 2 /\ x.er = er0 /\ x.ccr = ccr /\ x.wr = {<<>>}
MesHandler(v, h, ccr) ==
  LET blk == 16764192
      er0 == [Marker EXCEPT ![0] = <<0, 113>>, ![1] = <<blk \div P16, blk % P16>>, ![7] = <<255, 61184>>]
      s == MkS(<<22272>>, er0, ccr, << <<blk, Be4(v) \o Be4(h)>> >>)
      x == StepF(s)
      (* install: any admissible write sequence, unspecified bytes filled with H'5A *)
      after(w) == [er |-> x.er, ccr |-> x.ccr, pc |-> x.pc, mem |-> WrAll(s.mem, [i \in 1..Len(w) |-> <<w[i][1], IF w[i][2] = -1 THEN 90 ELSE w[i][2]>>])]
  IN /\ x.res = "ok" /\ x.pc = PC0 + 2 /\ x.er = er0 /\ x.ccr = ccr /\ x.con = <<>>
     /\ IF v >= 1 /\ v <= 63
        THEN \A w \in x.wr : LET y == AcceptF(after(w), v) IN y.res = "ok" /\ y.pc = h                \* a later interrupt of that vector enters h
        ELSE x.wr = {<<>>}                                                                            \* other vectors are ignored
MesOther(id, ccr) ==
  LET er0 == [Marker EXCEPT ![0] = id, ![1] = <<255, 52512>>]
      x == StepF(MkS(<<22272>>, er0, ccr, <<>>))
  IN x.res = "err" /\ x.wr = {<<>>}

Seeds ==
  (IF "C04" \in Groups THEN {<<"seed", "C04", m, n>> : m \in 1..14, n \in 0..7} ELSE {})
  \cup (IF "C05" \in Groups THEN {<<"seed", "C05", cc, form>> : cc \in 0..15, form \in {8, 16}} ELSE {})
  \cup (IF "C06" \in Groups THEN {<<"seed", "C06", n, top>> : n \in 1..3, top \in {0, 90, 255}} ELSE {})
  \cup (IF "C08" \in Groups THEN {<<"seed", "C08", up, 0>> : up \in {0, 1, 128, 255}} ELSE {})
  \cup (IF "C14" \in Groups THEN {<<"seed", "C14", k, 0>> : k \in 1..3} ELSE {})
  \cup (IF "C01" \in Groups THEN {<<"seed", "C01r", sz, fs>> : sz \in {1, 2, 4}, fs \in 0..15}
                                  \cup {<<"seed", "C01m", sz, fd>> : sz \in {1, 2, 4}, fd \in 0..15} ELSE {})
Expand(sd) ==
  CASE sd[2] = "C04" -> {<<"C04", sd[3], v, sd[4], cf, f>> : v \in Vals8, cf \in {0, 1}, f \in {0, 9, 15}}
    [] sd[2] = "C05" -> {<<"C05", sd[3], ccr, sd[4], d>> : ccr \in 0..255, d \in {0, 2, 126, -128, -2}}
    [] sd[2] = "C06" -> {<<"C06", sd[3], ccr, sp, sd[4]>> : ccr \in Ccrs, sp \in {<<255, 61184>>, <<23295, 61188>>, <<95, 65520>>}}
    [] sd[2] = "C08" -> {<<"C08", sd[3], base, d>> : base \in {0, 1, 255, 32768, 65535, 65536, 16760608, 16777214, 16777215, 4194304},
                                                     d \in {0, 1, 2, 255, 256, 32767, 32768, 32769, 65280, 65534, 65535}}
    [] sd[2] = "C14" -> (IF sd[3] = 1 THEN {<<"C14w", ti, bufsel, ccr>> : ti \in 1..Len(Texts), bufsel \in {0, 1}, ccr \in Ccrs}
                         ELSE IF sd[3] = 2 THEN {<<"C14h", v, h, ccr>> : v \in (0..70) \cup {255, 256}, h \in {16769024, 4259840, 2}, ccr \in {0, 128, 255}}
                         ELSE {<<"C14o", id, ccr>> : id \in {<<0, 0>>, <<0, 1>>, <<0, 103>>, <<0, 105>>, <<0, 112>>, <<0, 114>>, <<0, 255>>, <<1, 104>>, <<1, 113>>, <<65535, 65535>>}, ccr \in {0, 255}})
    [] sd[2] = "C01r" -> {<<"C01r", sd[3], sd[4], fd, v, ccr>> : fd \in 0..15, v \in ValsOf(sd[3]), ccr \in Ccrs}
    [] OTHER -> {<<"C01m", sd[3], mode, sd[4], an, v, ccr, up>> : mode \in {"ind", "inc", "dec"}, an \in {0, 3, 7}, v \in ValsOf(sd[3]), ccr \in Ccrs, up \in {0, 165}}
Init == c \in Seeds
Next == c[1] = "seed" /\ c' \in Expand(c)
Spec == Init /\ [][Next]_c
Inv ==
  CASE c[1] = "seed" -> TRUE
    [] c[1] = "C04" -> BitCase(BitMns[c[2]], c[3], c[4], c[5], c[6])
    [] c[1] = "C05" -> BccCase(c[2], c[3], c[4], c[5])
    [] c[1] = "C06" -> ExcCase(c[2], c[3], c[4], c[5])
    [] c[1] = "C08" -> EaCase(c[2], c[3], c[4])
    [] c[1] = "C14w" -> MesWrite(c[2], c[3], c[4])
    [] c[1] = "C14h" -> MesHandler(c[2], c[3], c[4])
    [] c[1] = "C14o" -> MesOther(c[2], c[3])
    [] c[1] = "C01r" -> MovRR(c[2], c[3], c[4], c[5], c[6])
    [] OTHER -> MovMem(c[2], c[3], c[4], c[5], c[6], c[7], c[8])
=============================================================================
