------------------------------- MODULE H8Loader -------------------------------
(***************************************************************************)
(* ELF loading and the MES process environment (properties C11, C12).      *)
(* The loader is specified over an ABSTRACT description of a structurally  *)
(* valid ELF32 big-endian executable (record e):                           *)
(*   ph   : program headers <<type, offset, vaddr, paddr, filesz, memsz>>  *)
(*   seg  : file contents of each program header's [offset, offset+filesz) *)
(*   sh   : section headers <<name, addr, offset, size, link, entsize>>    *)
(*   sym  : symbols <<name, <<value_hi, value_lo>>>> in .symtab order      *)
(*   args : argument string (bytes)                                        *)
(* All guest addresses are plain integers (< 2^24).                        *)
(***************************************************************************)
EXTENDS H8Map, SequencesExt

Base == 4286720                         \* load base H'416900
BaseV == <<65, 26880>>                  \* the same as a 32-bit V-value
TcbSize == 88
Align4(x) == ((x + 3) \div 4) * 4
IsLoad(p) == p[1] = 1

N_got   == <<46, 103, 111, 116>>                                   \* ".got"
N_stack == <<46, 115, 116, 97, 99, 107>>                           \* ".stack"
N_exit  == <<95, 95, 95, 101, 120, 105, 116>>                      \* "___exit"
ProgName == <<112, 114, 111, 103, 46, 101, 108, 102>>              \* "prog.elf"

SecIdx(e, name) == {i \in 1..Len(e.sh) : e.sh[i][1] = name}
HasSec(e, name) == SecIdx(e, name) # {}
Sec(e, name) == e.sh[CHOOSE i \in SecIdx(e, name) : TRUE]

(* byte of the loaded image at guest address a: file contents of the PT_LOAD covering it, else 0 *)
SegsAt(e, a) == {i \in 1..Len(e.ph) : IsLoad(e.ph[i]) /\ a >= Base + e.ph[i][3] /\ a < Base + e.ph[i][3] + e.ph[i][5]}
ImageByte(e, a) ==
  LET S == SegsAt(e, a)
  IN IF S = {} THEN 0 ELSE LET i == CHOOSE j \in S : TRUE IN e.seg[i][a - Base - e.ph[i][3] + 1]

(* highest PT_LOAD extent = where the image ends *)
ImageEnd(e) ==
  LET L == {i \in 1..Len(e.ph) : IsLoad(e.ph[i])}
  IN IF L = {} THEN 0 ELSE LET m == CHOOSE i \in L : \A j \in L : e.ph[j][4] + e.ph[j][6] <= e.ph[i][4] + e.ph[i][6]
                           IN e.ph[m][4] + e.ph[m][6]

(* argument words: maximal runs of bytes other than blank / tab *)
IsBlank(b) == b = 32 \/ b = 9
WordStarts(a) == {i \in 1..Len(a) : ~IsBlank(a[i]) /\ (i = 1 \/ IsBlank(a[i - 1]))}
WordEnd(a, i) == CHOOSE j \in i..Len(a) : (\A k \in i..j : ~IsBlank(a[k])) /\ (j = Len(a) \/ IsBlank(a[j + 1]))
ArgWords(a) == LET st == SetToSortSeq(WordStarts(a), <)
               IN [k \in 1..Len(st) |-> SubSeq(a, st[k], WordEnd(a, st[k]))]

Be32(x) == << x \div 16777216, (x \div 65536) % 256, (x \div 256) % 256, x % 256 >>   \* x < 2^31

(***************************************************************************)
(* the process environment (C12)                                           *)
(***************************************************************************)
Env(e) ==
  LET stack == Sec(e, N_stack)[2]                  \* the declared stack size is carried by the section's address field
      a0    == Align4(Base + ImageEnd(e) + stack)  \* 4-byte aligned end of the stack region
      a1    == Align4(a0 + TcbSize)                \* argument block behind the TCB area
      strs  == <<ProgName>> \o ArgWords(e.args)
      argc  == Len(strs)
      s0    == a1 + 4 * (argc + 1)
      saddr[i \in 1..argc] == IF i = 1 THEN s0 ELSE saddr[i - 1] + Len(strs[i - 1]) + 1
      block == FlattenSeq([i \in 1..argc |-> Be32(saddr[i])]) \o <<0, 0, 0, 0>>
               \o FlattenSeq([i \in 1..argc |-> strs[i] \o <<0>>])
  IN [imageEnd |-> Base + ImageEnd(e), stackEnd |-> a0, sp |-> a0 - 8, tcb |-> a0, argv |-> a1, argc |-> argc,
      block |-> block, blockEnd |-> a1 + Len(block)]

(* C12 layout well-formedness, stated declaratively *)
LayoutOK(e, v) ==
  /\ v.sp % 4 = 0 /\ v.stackEnd % 4 = 0 /\ v.sp = v.stackEnd - 8
  /\ v.stackEnd >= v.imageEnd + Sec(e, N_stack)[2] /\ v.stackEnd < v.imageEnd + Sec(e, N_stack)[2] + 4
  /\ v.tcb >= v.stackEnd /\ v.argv >= v.tcb + TcbSize /\ v.argv % 4 = 0
  /\ v.blockEnd - 1 <= DramHi

(***************************************************************************)
(* expected DRAM byte at guest address a after loading (C11 + C12)         *)
(***************************************************************************)
GotRange(e) == IF HasSec(e, N_got) THEN <<Base + Sec(e, N_got)[2], Base + Sec(e, N_got)[2] + 4 * (Sec(e, N_got)[4] \div 4) - 1>> ELSE <<0, -1>>
RelocByte(e, a) ==
  LET g0 == GotRange(e)[1]
      w  == g0 + 4 * ((a - g0) \div 4)
      f  == <<ImageByte(e, w) * 256 + ImageByte(e, w + 1), ImageByte(e, w + 2) * 256 + ImageByte(e, w + 3)>>
      r  == AddV(4, f, BaseV, 0).r
      bs == <<r[1] \div 256, r[1] % 256, r[2] \div 256, r[2] % 256>>
  IN bs[a - w + 1]
ExpByte(e, v, a) ==
  IF HasSec(e, N_stack) /\ a >= v.argv /\ a < v.blockEnd THEN v.block[a - v.argv + 1]
  ELSE IF a >= GotRange(e)[1] /\ a <= GotRange(e)[2] THEN RelocByte(e, a)
  ELSE ImageByte(e, a)

ExitAddr(e) ==
  LET S == {i \in 1..Len(e.sym) : e.sym[i][1] = N_exit}
  IN IF S = {} THEN <<0, 0>> ELSE AddV(4, e.sym[CHOOSE i \in S : TRUE][2], BaseV, 0).r
=============================================================================
