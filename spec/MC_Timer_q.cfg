SPECIFICATION Spec
CONSTANTS
  Configs <- ConfigsQ
  Steps8 = {1, 3, 8, 9, 17}
  Steps64 = {1, 63, 64, 70}
  MaxE8 = 26
  MaxE64 = 150
INVARIANT Inv
CHECK_DEADLOCK FALSE
