INIT Init
NEXT Next
