------------------------------- MODULE TraceElf -------------------------------
(***************************************************************************)
(* Trace validation of elf::load (C11, C12): each `elf` event carries the  *)
(* abstract description of a generated ELF file (what the harness's writer *)
(* serialised) and what the REAL loader produced: registers, exit address, *)
(* the complete non-zero DRAM contents as runs, and any change outside     *)
(* DRAM.  TLC recomputes the expectation from the description.             *)
(***************************************************************************)
EXTENDS H8Loader, Json, IOUtils

Rec  == ndJsonDeserialize(IOEnv.TRACE)
PROP == IOEnv.PROP
NRec == Len(Rec)
VARIABLES l, cov
vars == <<l, cov>>

ErOf(p) == [n \in 0..7 |-> <<p[2 * n + 1], p[2 * n + 2]>>]
Logged(e, a) == LET x == RunVal(e.dram, a) IN IF x < 0 THEN 0 ELSE x

ElfEvent(e) ==
  LET hasStack == HasSec(e, N_stack)
      v   == IF hasStack THEN Env(e) ELSE [argv |-> 0, blockEnd |-> 0]
      er  == ErOf(e.er)
      (* every logged non-zero byte is expected ... *)
      noStray == \A r \in 1..Len(e.dram) : \A i \in 1..Len(e.dram[r][2]) :
                    e.dram[r][2][i] = ExpByte(e, v, e.dram[r][1] + i - 1)
      (* ... and every expected byte is there: segments, GOT, argument block *)
      segsOK == \A p \in 1..Len(e.ph) : IsLoad(e.ph[p]) =>
                    \A i \in 0..(e.ph[p][5] - 1) : Logged(e, Base + e.ph[p][3] + i) = ExpByte(e, v, Base + e.ph[p][3] + i)
      gotOK  == \A a \in GotRange(e)[1]..GotRange(e)[2] : Logged(e, a) = ExpByte(e, v, a)
      argOK  == hasStack => \A a \in v.argv..(v.blockEnd - 1) : Logged(e, a) = ExpByte(e, v, a)
      c11 == e.res = "ok" /\ noStray /\ segsOK /\ gotOK /\ e.outside = <<>>
      c12 == /\ e.res = "ok"
             /\ er[2] = AddrV(Base)
             /\ (HasSec(e, N_got) => er[5] = AddrV(Base + Sec(e, N_got)[2]))
             /\ (hasStack => /\ LayoutOK(e, v)
                             /\ er[7] = AddrV(v.sp) /\ er[0] = <<0, v.argc>> /\ er[1] = AddrV(v.argv)
                             /\ argOK /\ noStray)
             /\ e.exit = ExitAddr(e)
      ok == IF PROP = "C11" THEN c11 ELSE IF PROP = "C12" THEN c12 ELSE c11 /\ c12
      why == (IF e.res # "ok" THEN <<"res">> ELSE <<>>)
             \o (IF ~noStray THEN <<"unexpected DRAM byte">> ELSE <<>>) \o (IF ~segsOK THEN <<"segment bytes">> ELSE <<>>)
             \o (IF ~gotOK THEN <<"GOT">> ELSE <<>>) \o (IF e.outside # <<>> THEN <<"write outside DRAM">> ELSE <<>>)
             \o (IF hasStack /\ ~argOK THEN <<"argument block">> ELSE <<>>)
             \o (IF hasStack /\ er[7] # AddrV(v.sp) THEN <<"ER7">> ELSE <<>>)
             \o (IF hasStack /\ (er[0] # <<0, v.argc>> \/ er[1] # AddrV(v.argv)) THEN <<"ER0/ER1">> ELSE <<>>)
             \o (IF e.exit # ExitAddr(e) THEN <<"exit address">> ELSE <<>>)
             \o (IF er[2] # AddrV(Base) THEN <<"ER2">> ELSE <<>>)
             \o (IF HasSec(e, N_got) /\ er[5] # AddrV(Base + Sec(e, N_got)[2]) THEN <<"ER5">> ELSE <<>>)
  IN /\ IF ok THEN TRUE
        ELSE PrintT("MISMATCH " \o ToJson([id |-> e.id, prop |-> PROP, row |-> "elf::load", exp |-> "ok", got |-> e.res, fields |-> why, dev |-> "",
                                          expsp |-> IF hasStack THEN v.sp ELSE 0, expargv |-> v.argv]))
     /\ cov' = cov \cup {<<"elf", IF hasStack THEN "env" ELSE "noenv">>}

Consume == /\ l <= NRec
           /\ LET e == Rec[l] IN IF e.k = "elf" THEN ElfEvent(e)
                                 ELSE PrintT("MISMATCH " \o ToJson([id |-> l, prop |-> PROP, row |-> "unknown-event-kind"])) /\ UNCHANGED cov
           /\ l' = l + 1
Finish == /\ l = NRec + 1
          /\ PrintT("COVERAGE " \o ToJson([rows |-> SetToSeq(cov)]))
          /\ PrintT("DONE " \o ToString(NRec))
          /\ l' = l + 1 /\ UNCHANGED cov
Init == l = 1 /\ cov = {}
Next == Consume \/ Finish
Spec == Init /\ [][Next]_vars
=============================================================================
