------------------------------ MODULE RunLemma ------------------------------
(***************************************************************************)
(* Unbounded lemma behind property C13's sync clause, for Apalache: for    *)
(* EVERY sequence of instruction charges 1 <= c < T (the emulator's        *)
(* charges are far below the interval) the run loop's rule                 *)
(*     resid += c; if resid >= T then emit sync, resid -= T                *)
(* emits exactly one sync each time the total passes another multiple of   *)
(* T: nsync = total div T and resid = total mod T hold inductively, and    *)
(* the total announced by the k-th sync lies in [k T, k T + T).            *)
(* (MC_Run checks the same on concrete bounded programs with TLC.)         *)
(***************************************************************************)
EXTENDS Integers
CONSTANT
  \* @type: Int;
  T
VARIABLES
  \* @type: Int;
  total,
  \* @type: Int;
  resid,
  \* @type: Int;
  nsync,
  \* @type: Int;
  last      \* total announced by the most recent sync (0 = none yet)

ConstInit == T = 2000000
Init == total = 0 /\ resid = 0 /\ nsync = 0 /\ last = 0
Step(c) ==
  /\ total' = total + c
  /\ IF resid + c >= T
     THEN resid' = resid + c - T /\ nsync' = nsync + 1 /\ last' = total + c
     ELSE resid' = resid + c /\ nsync' = nsync /\ last' = last
Next == \E c \in 1..(T - 1) : Step(c)

IndInv0 ==
  /\ total >= 0 /\ resid >= 0 /\ resid < T /\ nsync >= 0
  /\ total = nsync * T + resid
  /\ (nsync = 0 => last = 0)
  /\ (nsync > 0 => last >= nsync * T /\ last < nsync * T + T /\ last <= total)
IndInit == total \in Int /\ resid \in Int /\ nsync \in Int /\ last \in Int /\ IndInv0
IndInv ==
  /\ total >= 0 /\ resid >= 0 /\ resid < T /\ nsync >= 0
  /\ total = nsync * T + resid                       \* nsync = total div T, resid = total mod T
  /\ (nsync = 0 => last = 0)
  /\ (nsync > 0 => last >= nsync * T /\ last < nsync * T + T /\ last <= total)
=============================================================================
