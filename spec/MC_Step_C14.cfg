SPECIFICATION Spec
CONSTANTS
  Groups = {"C14"}
  Vals8 = {0, 1, 15, 127, 128, 254, 255, 90}
  Ccrs = {0, 255, 165, 90}
INVARIANT Inv
CHECK_DEADLOCK FALSE
