SPECIFICATION Spec
CONSTANTS
  Slots = {1}
  Vals = {0, 255, 15, 165}
  Depth = 1
  Emit = FALSE
CONSTRAINT Bound
INVARIANT InvRead
INVARIANT InvAnn
PROPERTY StepProps
CHECK_DEADLOCK FALSE
