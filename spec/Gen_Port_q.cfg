SPECIFICATION Spec
CONSTANTS
  Slots = {1}
  Vals = {0, 255, 15, 165}
  Depth = 5
  Emit = TRUE
CONSTRAINT Bound
CHECK_DEADLOCK FALSE
INVARIANT EmitInv
