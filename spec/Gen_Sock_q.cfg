SPECIFICATION Spec
CONSTANTS
  Kinds = {1, 2, 3, 4, 5, 7, 10}
  MaxLen = 3
  Emit = TRUE
  Alphabet = {92}
  MaxMsg = 0
INVARIANT EmitInv
CHECK_DEADLOCK FALSE
