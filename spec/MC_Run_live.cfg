SPECIFICATION Spec
CONSTANTS
  T = 8
  Progs = {1, 3, 4, 5}
  MaxLines = 0
  MaxDelay = 2
INVARIANT Inv
PROPERTY Terminates
CHECK_DEADLOCK FALSE
