SPECIFICATION Spec
CONSTANTS
  Slots = {1, 2, 3}
  MaxReq = 4
  Depth = 0
  Emit = FALSE
  K = 4
  HLen = 3
INVARIANT InvMask
INVARIANT InvOnce
INVARIANT InvNest
INVARIANT InvFrame
PROPERTY Live
CHECK_DEADLOCK FALSE
