------------------------------- MODULE MC_Timer -------------------------------
(***************************************************************************)
(* Design-level model for property C17.                                    *)
(*                                                                         *)
(* A FREE machine: every tick of n elapsed states may produce ANY number   *)
(* of counts 0..(n div d)+2 (so it contains the correct timer, timers that *)
(* lose, gain or bunch counts at instruction boundaries, ...).  Next to it *)
(*   P   = the set of phases p in 0..d-1 for which EVERY prefix so far     *)
(*         satisfies  counts = floor((E + p) / d)   (brute force, the      *)
(*         property's own words), and                                      *)
(*   tm  = the state of the trace-validation observer H8Timer.TimerTick,   *)
(*         fed with what a trace of that machine would contain.            *)
(* Invariants:                                                             *)
(*   InvObserver  the observer accepts a behaviour iff some fixed phase    *)
(*                explains it, and its feasible-residue intervals are      *)
(*                exactly {(E + p) mod d : p in P}  (the oracle used on    *)
(*                the real emulator is sound AND complete);                *)
(*   InvClosed    TCNT, the flags and the interrupt requests produced by   *)
(*                H8Timer.CountOnce agree with closed forms in the total   *)
(*                number of counts (compare match, overflow, clear on      *)
(*                match, one request per event iff enabled);               *)
(*   InvSticky    a tick never clears a flag.                              *)
(***************************************************************************)
EXTENDS H8Timer, Sequences
CONSTANTS Configs,      \* set of <<tcr, tcora, tcorb, tcnt0>>
          Steps8, Steps64, MaxE8, MaxE64

VARIABLE vT
ConfigsT == {<<1, 254, 255, 253>>, <<225, 254, 255, 253>>, <<233, 2, 1, 0>>, <<233, 2, 1, 254>>, <<241, 3, 1, 0>>, <<226, 1, 2, 255>>}
ConfigsQ == {<<225, 254, 255, 253>>, <<233, 2, 1, 254>>, <<241, 3, 1, 0>>, <<226, 1, 2, 255>>}
TimerAddrs == {TCR0, TCSR0, TCORA0, TCORB0, TCNT0}
MemFor(cf, st) == MemOf("zero", << <<TCR0, <<cf[1]>>>>, <<TCSR0, <<st.tcsr>>>>, <<TCORA0, <<cf[2]>>>>, <<TCORB0, <<cf[3]>>>>, <<TCNT0, <<st.tcnt>>>> >>)
Rep(v, n) == [i \in 1..n |-> v]
IvSet(I) == UNION {i[1]..i[2] : i \in I}

Init == vT \in {[cf |-> cf, st |-> [tcnt |-> cf[4], tcsr |-> 0, ra |-> 0, rb |-> 0, ro |-> 0], E |-> 0, K |-> 0,
                 P |-> 0..(DivisorOf(cf[1]) - 1), tm |-> TimerWrite(TimerTraceInit, TCR0, cf[1], MemFor(cf, [tcnt |-> cf[4], tcsr |-> 0])),
                 ok |-> TRUE, pf |-> 0, la |-> "init", dl |-> <<0, 0, 0>>] : cf \in Configs}

Tick(n, k) ==
  LET cf == vT.cf
      d  == DivisorOf(cf[1])
      s0 == [vT.st EXCEPT !.ra = 0, !.rb = 0, !.ro = 0]
      s1 == CountN(s0, k, cf[1], cf[2], cf[3])
      e  == [n |-> n, tcnt |-> s1.tcnt, tcsr |-> s1.tcsr, req |-> Rep(36, s1.ra) \o Rep(37, s1.rb) \o Rep(39, s1.ro), wr |-> <<>>]
      r  == TimerTick(vT.tm, e, MemFor(cf, vT.st))
      E2 == vT.E + n
      K2 == vT.K + k
  IN vT' = [vT EXCEPT !.st = [s1 EXCEPT !.ra = vT.st.ra + s1.ra, !.rb = vT.st.rb + s1.rb, !.ro = vT.st.ro + s1.ro],
                      !.E = E2, !.K = K2, !.P = {p \in vT.P : (E2 + p) \div d = K2}, !.tm = r.tm, !.ok = r.ok,
                      !.pf = vT.st.tcsr, !.la = "tick", !.dl = <<s1.ra, s1.rb, s1.ro>>]
ClearFlags == vT.st.tcsr # 0 /\ vT' = [vT EXCEPT !.st.tcsr = 0, !.la = "clear"]

Next ==
  /\ vT.ok                                               \* a rejected behaviour is not continued
  /\ LET d == DivisorOf(vT.cf[1])
         steps == IF d = 8 THEN Steps8 ELSE Steps64
         maxE  == IF d = 8 THEN MaxE8 ELSE MaxE64
     IN \/ \E n \in steps : vT.E + n <= maxE /\ \E k \in 0..((n \div d) + 2) : Tick(n, k)
        \/ ClearFlags
Spec == Init /\ [][Next]_vT

InvObserver ==
  LET d == DivisorOf(vT.cf[1])
  IN /\ vT.ok <=> vT.P # {}
     /\ vT.ok => IvSet(vT.tm.R) = {(vT.E + p) % d : p \in vT.P}

(* closed forms in the total number of counts K *)
First(t0, m) == IF t0 < m THEN m - t0 ELSE 256 - t0 + m            \* index of the first count that makes TCNT = m
Matches(t0, m, K, period) == IF K < First(t0, m) THEN 0 ELSE 1 + (K - First(t0, m)) \div period
InvClosed ==
  LET cf == vT.cf  K == vT.K  t0 == cf[4]  cl == CclrOf(cf[1])
      cm == IF cl = 1 THEN cf[2] ELSE cf[3]                           \* the clearing compare register
      f  == First(t0, cm)
      tcnt == IF cl = 0 THEN (t0 + K) % 256 ELSE IF K < f THEN (t0 + K) % 256 ELSE (K - f) % cm
      (* the clear happens AT the count that makes TCNT equal the compare register (the emulator's and the  *)
      (* property's reading: "cleared by the compare match"), so the period is cm counts                   *)
      (* count indices j in 1..K and the value TCNT takes at count j (before a clear) *)
      valAt(j) == IF cl = 0 THEN (t0 + j) % 256 ELSE IF j <= f THEN (t0 + j) % 256 ELSE ((j - f - 1) % cm) + 1
      wasAt(j) == IF j = 1 THEN t0 ELSE IF cl = 0 THEN (t0 + j - 1) % 256 ELSE IF j - 1 < f THEN (t0 + j - 1) % 256 ELSE (j - 1 - f) % cm
      nA == Cardinality({j \in 1..K : valAt(j) = cf[2]})
      nB == Cardinality({j \in 1..K : valAt(j) = cf[3]})
      nO == Cardinality({j \in 1..K : wasAt(j) = 255})
  IN /\ vT.st.tcnt = tcnt
     /\ vT.st.ra = nA * CMIEA(cf[1]) /\ vT.st.rb = nB * CMIEB(cf[1]) /\ vT.st.ro = nO * OVIE(cf[1])
     /\ (cl # 0 => (IF cl = 1 THEN nA ELSE nB) = Matches(t0, cm, K, cm))
InvSticky == vT.la = "tick" => \A b \in {5, 6, 7} : Bit(vT.pf, b) = 1 => Bit(vT.st.tcsr, b) = 1
(* a flag is set after a tick exactly when it was set before or its event happened during the tick     *)
(* (events are visible as request deltas in the all-enabled configurations)                            *)
InvFlagIffEvent ==
  (vT.la = "tick" /\ CMIEA(vT.cf[1]) = 1 /\ CMIEB(vT.cf[1]) = 1 /\ OVIE(vT.cf[1]) = 1) =>
     /\ Bit(vT.st.tcsr, 6) = 1 <=> (Bit(vT.pf, 6) = 1 \/ vT.dl[1] > 0)
     /\ Bit(vT.st.tcsr, 7) = 1 <=> (Bit(vT.pf, 7) = 1 \/ vT.dl[2] > 0)
     /\ Bit(vT.st.tcsr, 5) = 1 <=> (Bit(vT.pf, 5) = 1 \/ vT.dl[3] > 0)
Inv == InvObserver /\ InvClosed /\ InvSticky /\ InvFlagIffEvent
=============================================================================
