SPECIFICATION Spec
INVARIANT Inv
CHECK_DEADLOCK FALSE
