SPECIFICATION Spec
CONSTANTS
  T = 8
  Progs = {1, 2, 3, 4, 5}
  MaxLines = 3
  MaxDelay = 2
CONSTRAINT Bound
INVARIANT Inv
PROPERTY Terminal
CHECK_DEADLOCK FALSE
