//! `decode-sweep` (C07) and `panic-sweep` (C15): instruction words enumerated directly.
//! The sweeps know nothing about what a word means; the second-word candidates of the
//! multi-word prefixes are taken from the exported form table (its patterns and their
//! single-bit neighbours) plus plain enumeration.
use crate::cases::{case_event, exec_case};
use crate::forms::{self, Form};
use crate::gen::*;
use crate::machine::*;
use crate::rng::{hash_str, Rng};
use crate::Args;
use anyhow::{anyhow, Result};
use std::io::{BufWriter, Write};
use std::sync::Arc;

#[derive(Clone)]
struct WJob {
    words: Vec<u16>, // fixed leading words; the rest is random
    variant: u32,
}

fn second_word_candidates(forms: &[Form], prefix_len: usize, prefix: &[u16], rng: &mut Rng, n_random: usize, all: bool) -> Vec<u16> {
    let mut v: Vec<u16> = Vec::new();
    if all {
        return (0..=0xffffu32).map(|x| x as u16).collect();
    }
    for f in forms {
        if f.w.len() <= prefix_len {
            continue;
        }
        if !(0..prefix_len).all(|i| prefix[i] & f.w[i].0 == f.w[i].1) {
            continue;
        }
        let (m, val) = f.w[prefix_len];
        // canonical pattern, a few random instances of the free bits, and single-bit neighbours
        for k in 0..6 {
            let inst = val | (if k == 0 { 0 } else { rng.u16() } & !m);
            v.push(inst);
            for b in 0..16 {
                v.push(inst ^ (1 << b));
            }
        }
    }
    for _ in 0..n_random {
        v.push(rng.u16());
    }
    v.sort();
    v.dedup();
    v
}

fn adversarial_regs(i: usize, rng: &mut Rng) -> Regs {
    const ADV: [u32; 24] = [
        0, 1, 2, 3, 0xffffffff, 0xfffffffe, 0xfffffffd, 0x00ffffff, 0x01000000, 0x00ffffe9, 0x00ffffea, 0x00ffbf20, 0x00ffbf1f,
        0x00ffff1f, 0x00ffff20, 0x00400000, 0x003fffff, 0x005fffff, 0x00600000, 0x000000ff, 0x00000100, 0x00fee000, 0x00fee0ff, 0x80000000,
    ];
    let mut r = Regs::default();
    let mode = i % 4;
    for k in 0..8 {
        r.er[k] = match mode {
            0 => ADV[(i / 4 + k * 5) % ADV.len()],
            1 => ADV[(i / 4) % ADV.len()],
            2 => {
                if rng.chance(1, 2) {
                    rng.pick(&ADV)
                } else {
                    rng.u32()
                }
            }
            _ => rng.pick(&ADV).wrapping_add(rng.below(9) as u32).wrapping_sub(4),
        };
    }
    r.ccr = if i % 2 == 0 { 0x00 } else { 0xff };
    r
}

const ADV_PCS: [u32; 22] = [
    0xffc000, 0x400000, 0x000000, 0x0000fa, 0x0000fc, 0x0000fe, 0x5ffffa, 0x5ffffc, 0x5ffffe, 0xffff1a, 0xffff1c, 0xffff1e, 0xffbf20, 0xfee000,
    0xfee0fe, 0xffff20, 0xffffe6, 0xffffe8, // mapped regions incl. their last 2/4/6 bytes
    0x200000, 0xffffea, 0x000100, 0xffbf1e, // unmapped
];
const ADV_BUS: [[u8; 5]; 4] = [[0xff, 0xfb, 0xff, 0xcf, 0xe0], [0xff, 0xff, 0xff, 0xff, 0xe0], [0, 0, 0, 0, 0], [0xff, 0xff, 0xff, 0xff, 0xff]];

pub fn run_sweep(args: &Args, panic_mode: bool) -> Result<()> {
    let tier = args.get("tier").unwrap_or("quick").to_string();
    let forms = Arc::new(forms::load(args.req("forms")?)?);
    let outdir = args.req("out")?.to_string();
    let threads = args.num("threads", 8) as usize;
    let seed = args.num("seed", 1);
    let drv = if panic_mode { "C15" } else { "C07" };
    std::fs::create_dir_all(&outdir)?;
    let thorough = tier == "thorough";
    let mut rng0 = Rng::new(seed ^ hash_str(drv), 7);

    let mut jobs: Vec<WJob> = Vec::new();
    // --- every first word
    let reps = if panic_mode { if thorough { 6 } else { 2 } } else if thorough { 4 } else { 2 };
    for w in 0..=0xffffu32 {
        for v in 0..reps {
            jobs.push(WJob { words: vec![w as u16], variant: v });
        }
    }
    // --- multi-word prefixes x second words
    let mut prefixes: Vec<Vec<u16>> = vec![vec![0x0100], vec![0x0140], vec![0x01f0], vec![0x01c0], vec![0x01d0], vec![0x7b5c], vec![0x7bd4]];
    for r in 0..16u16 {
        prefixes.push(vec![0x7800 | (r << 4)]);
        prefixes.push(vec![0x7c00 | (r << 4)]);
        prefixes.push(vec![0x7d00 | (r << 4)]);
    }
    for aa in [0x00u16, 0x10, 0x1c, 0x80, 0xd0, 0xe9, 0xea, 0xff] {
        prefixes.push(vec![0x7e00 | aa]);
        prefixes.push(vec![0x7f00 | aa]);
    }
    for r in [0u16, 5, 8, 0xf] {
        for op in [0x6a20u16, 0x6aa0, 0x6b20, 0x6ba0] {
            prefixes.push(vec![op | r]);
        }
    }
    for c in 0..16u16 {
        prefixes.push(vec![0x5800 | (c << 4)]);
    }
    let n_random = if thorough { 0 } else if panic_mode { 400 } else { 1500 };
    for p in &prefixes {
        let full = thorough && matches!(p[0], 0x0100 | 0x0140 | 0x01f0 | 0x7800 | 0x7870 | 0x7c00 | 0x7d10 | 0x7e1c | 0x7f1c);
        let cands = second_word_candidates(&forms, 1, p, &mut rng0, if thorough { 6000 } else { n_random }, full);
        for w2 in cands {
            jobs.push(WJob { words: vec![p[0], w2], variant: 0 });
            if thorough {
                jobs.push(WJob { words: vec![p[0], w2], variant: 1 });
            }
        }
    }
    // --- three-word prefixes (0100 78r0 xxxx, 0140 78r0 xxxx)
    for p0 in [0x0100u16, 0x0140] {
        for r in [0u16, 3, 7, 8, 0xf] {
            let p = vec![p0, 0x7800 | (r << 4)];
            let cands = second_word_candidates(&forms, 2, &p, &mut rng0, if thorough { 3000 } else { 300 }, false);
            for w3 in cands {
                jobs.push(WJob { words: vec![p[0], p[1], w3], variant: 0 });
            }
        }
    }
    let jobs = Arc::new(jobs);
    let njobs = jobs.len();
    let mut handles = Vec::new();
    for t in 0..threads {
        let jobs = jobs.clone();
        let forms2 = forms.clone();
        let path = format!("{}/sweep_{:02}.ndjson", outdir, t);
        handles.push(std::thread::spawn(move || -> Result<(u64, u64, u64)> {
            let mut m = Machine::new(Bg::Tag);
            let mut w = BufWriter::with_capacity(1 << 20, std::fs::File::create(&path)?);
            let (mut n, mut nerr, mut npanic) = (0u64, 0u64, 0u64);
            let lo = njobs * t / threads;
            let hi = njobs * (t + 1) / threads;
            for (k, job) in jobs[lo..hi].iter().enumerate() {
                let gi = lo + k;
                let mut rng = Rng::new(seed ^ hash_str(drv), gi as u64);
                let mut words = job.words.clone();
                while words.len() < 5 {
                    // extension words: an instance of some row's pattern for that word position (so a
                    // first word wrongly treated as a prefix does execute something), small values
                    // (benign displacements / addresses), or random
                    let pos = words.len();
                    let wv = match rng.below(6) {
                        0 | 1 => {
                            let cands: Vec<&Form> = forms2.iter().filter(|f| f.w.len() > pos && f.w[pos].0 != 0).collect();
                            if cands.is_empty() {
                                rng.u16()
                            } else {
                                let f = cands[rng.below(cands.len())];
                                f.w[pos].1 | (rng.u16() & !f.w[pos].0)
                            }
                        }
                        2 => rng.u16() & 0x00fe,
                        3 => 0x00ff,
                        _ => rng.u16(),
                    };
                    words.push(wv);
                }
                let (regs, pc, extra) = if panic_mode {
                    let regs = adversarial_regs(gi, &mut rng);
                    let pc = ADV_PCS[(gi / 3) % ADV_PCS.len()];
                    let b = ADV_BUS[(gi / 7) % ADV_BUS.len()];
                    (regs, pc, vec![(ABWCR, b[0]), (ASTCR, b[1]), (WCRH, b[2]), (WCRL, b[3]), (DRCRA, b[4])])
                } else {
                    let regs = benign_regs(&mut rng);
                    let pc = [0xffc000u32, 0x400100, 0xffe000][job.variant as usize % 3] + (rng.below(64) * 2) as u32;
                    let b = BUS_INIT;
                    (regs, pc, vec![(ABWCR, b[0]), (ASTCR, b[1]), (WCRH, b[2]), (WCRL, b[3]), (DRCRA, b[4])])
                };
                let c = case_from_words(drv, "", &words, regs, pc, &extra);
                let out = exec_case(&mut m, &c);
                n += 1;
                if out.res == "err" {
                    nerr += 1;
                }
                if out.res == "panic" {
                    npanic += 1;
                }
                let id = (t as u64) * 10_000_000 + k as u64;
                writeln!(w, "{}", case_event(id, &c, Bg::Tag, &out))?;
            }
            w.flush()?;
            Ok((n, nerr, npanic))
        }));
    }
    let (mut n, mut ne, mut np) = (0, 0, 0);
    for h in handles {
        let (a, b, c) = h.join().map_err(|_| anyhow!("driver thread panicked"))??;
        n += a;
        ne += b;
        np += c;
    }
    println!("{{\"driver\":\"{}\",\"events\":{},\"err\":{},\"panic\":{},\"first_words\":65536,\"prefixes\":{}}}", if panic_mode { "panic-sweep" } else { "decode-sweep" }, n, ne, np, prefixes.len());
    Ok(())
}
