//! Bus-level drivers: `bus-scan`, `bus-history` (C09), `port-replay` (C16), `timer-replay` (C17).
//! All of them act on the Bus inside a live Cpu through its public API (Bus::write, Bus::read,
//! Bus::write_port) and the update_modules hook, and log threaded events for spec/TraceBus.tla.
use crate::machine::*;
use crate::rng::{hash_str, Rng};
use crate::Args;
use anyhow::{anyhow, Result};
use std::io::{BufWriter, Write};

pub struct Hist {
    pub m: Machine,
    pub w: BufWriter<std::fs::File>,
    pub id: u64,
    pub sum: usize,
    pub keep_pending: bool,
}

fn addr_pair(a: u64) -> String {
    format!("[{},{}]", (a >> 16) & 0xffff, a & 0xffff)
}

impl Hist {
    pub fn new(path: &str, bg: Bg) -> Result<Self> {
        Ok(Hist { m: Machine::new(bg), w: BufWriter::with_capacity(1 << 20, std::fs::File::create(path)?), id: 0, sum: 0, keep_pending: false })
    }
    fn readbacks(&self) -> (Vec<u8>, Vec<u8>) {
        let dd = (0..11).map(|i| self.m.cpu.bus.read(0xfee000 + i).unwrap_or(0)).collect();
        let dr = (0..11).map(|i| self.m.cpu.bus.read(0xffffd0 + i).unwrap_or(0)).collect();
        (dd, dr)
    }
    pub fn reset(&mut self) -> Result<()> {
        // undo everything the history did: memory back to the background, peripherals fresh
        let d = self.m.diff();
        self.m.restore(&d);
        self.sum = 0;
        writeln!(self.w, "{{\"k\":\"reset\",\"id\":{},\"bg\":\"{}\"}}", self.id, self.m.bg.name())?;
        self.id += 1;
        Ok(())
    }
    pub fn set_sum(&mut self, s: usize) {
        self.sum = s;
        self.m.cpu.vh_set_state_sum(s);
    }
    pub fn bw(&mut self, a: u64, v: u8) -> Result<()> {
        let out = if a <= u32::MAX as u64 { self.m.bus_write(a as u32, v) } else { return Err(anyhow!("addr")) };
        self.m.commit(&out.wr);
        let (dd, dr) = self.readbacks();
        writeln!(self.w, "{{\"k\":\"bw\",\"id\":{},\"a\":{},\"v\":{},\"res\":\"{}\",\"wr\":{},\"msgs\":{},\"sum\":{},\"dd\":{},\"dr\":{}}}",
                 self.id, addr_pair(a), v, out.res, j_pairs(&out.wr), j_msgs(&out.msgs), self.sum, j_bytes(&dd), j_bytes(&dr))?;
        self.id += 1;
        Ok(())
    }
    pub fn br(&mut self, a: u64) -> Result<()> {
        let r = std::panic::catch_unwind(std::panic::AssertUnwindSafe(|| self.m.cpu.bus.read(a as u32)));
        let (res, v) = match r {
            Ok(Ok(v)) => ("ok", v as i64),
            Ok(Err(_)) => ("err", -1),
            Err(_) => ("panic", -1),
        };
        writeln!(self.w, "{{\"k\":\"br\",\"id\":{},\"a\":{},\"res\":\"{}\",\"v\":{}}}", self.id, addr_pair(a), res, v)?;
        self.id += 1;
        Ok(())
    }
    pub fn pin(&mut self, port: u8, v: u8) -> Result<()> {
        let out = self.m.ext_in(port, v);
        self.m.commit(&out.wr);
        let (dd, dr) = self.readbacks();
        writeln!(self.w, "{{\"k\":\"pin\",\"id\":{},\"port\":{},\"v\":{},\"res\":\"{}\",\"wr\":{},\"msgs\":{},\"sum\":{},\"dd\":{},\"dr\":{}}}",
                 self.id, port, v, out.res, j_pairs(&out.wr), j_msgs(&out.msgs), self.sum, j_bytes(&dd), j_bytes(&dr))?;
        self.id += 1;
        Ok(())
    }
    pub fn tick(&mut self, n: u8) -> Result<()> {
        // requests raised by THIS tick = what was appended to the queue; in backlog histories the queue is left
        // to grow (an interrupt-masked CPU), otherwise it is emptied after every tick
        let before = self.m.cpu.vh_pending().len();
        let out = self.m.update_modules(n);
        self.m.commit(&out.wr);
        let all = self.m.cpu.vh_pending();
        let req: Vec<u8> = if all.len() >= before { all[before..].to_vec() } else { all.clone() };
        if !self.keep_pending {
            self.m.cpu.vh_clear_pending();
        }
        let tcnt = self.m.cpu.bus.read(0xffff88).unwrap_or(0);
        let tcsr = self.m.cpu.bus.read(0xffff82).unwrap_or(0);
        writeln!(self.w, "{{\"k\":\"tick\",\"id\":{},\"n\":{},\"res\":\"{}\",\"tcnt\":{},\"tcsr\":{},\"req\":{},\"wr\":{}}}",
                 self.id, n, out.res, tcnt, tcsr, j_bytes(&req), j_pairs(&out.wr))?;
        self.id += 1;
        Ok(())
    }
}

// ------------------------------------------------------------------------------------------------
// C09 (a): exhaustive scans.  Run-length compaction of OBSERVATIONS only.
// ------------------------------------------------------------------------------------------------
pub fn run_scan(args: &Args) -> Result<()> {
    let outdir = args.req("out")?.to_string();
    let seed = args.num("seed", 1);
    std::fs::create_dir_all(&outdir)?;
    let mut rng = Rng::new(seed ^ hash_str("C09scan"), 1);
    let mut m = Machine::new(Bg::Zero);
    let mut w = BufWriter::new(std::fs::File::create(format!("{}/scan.ndjson", outdir))?);
    // samples at and above 2^24 (must all fail)
    let mut hi: Vec<u64> = vec![0x1000000, 0x1000001, 0x10000ff, 0x1400000, 0x1ffbf20, 0xff5ffffe, 0xffffffff, 0xff000000, 0x80000000, 0x01fee000, 0x0100ffff20];
    hi.retain(|a| *a <= u32::MAX as u64);
    for _ in 0..4000 {
        hi.push(0x1000000 + (rng.next() % 0xff000000u64));
    }
    for k in 1..=255u64 {
        for base in [0x000000u64, 0x0000ff, 0x400000, 0x5fffff, 0xfee000, 0xffbf20, 0xffff1f, 0xffffe9] {
            hi.push(base + (k << 24));
        }
    }
    let run_lengths = |f: &mut dyn FnMut(u32) -> &'static str| -> Vec<(u32, u32, &'static str)> {
        let mut iv: Vec<(u32, u32, &'static str)> = Vec::new();
        for a in 0..(1u32 << 24) {
            let o = f(a);
            match iv.last_mut() {
                Some(l) if l.2 == o => l.1 = a,
                _ => iv.push((a, a, o)),
            }
        }
        iv
    };
    let fmt_iv = |iv: &[(u32, u32, &'static str)]| -> String {
        let mut s = String::from("[");
        for (i, (lo, hi, o)) in iv.iter().take(200).enumerate() {
            if i > 0 {
                s.push(',');
            }
            s.push_str(&format!("[{},{},\"{}\"]", lo, hi, o));
        }
        s.push(']');
        s
    };
    // ---- read scan
    let iv = run_lengths(&mut |a| if m.cpu.bus.read(a).is_ok() { "ok" } else { "err" });
    let his: Vec<String> = hi.iter().map(|&a| format!("[{},{},\"{}\"]", a >> 16, a & 0xffff, if m.cpu.bus.read(a as u32).is_ok() { "ok" } else { "err" })).collect();
    writeln!(w, "{{\"k\":\"scan\",\"id\":0,\"what\":\"read\",\"res\":\"scan\",\"iv\":{},\"hi\":[{}]}}", fmt_iv(&iv), his.join(","))?;
    // ---- store scan: two different tag functions so that an aliased pair cannot hide behind equal tags
    let t1 = |a: u32| tag(a);
    let t2 = |a: u32| tag(a.wrapping_mul(0x9e3779b1).rotate_left(7) ^ 0x5a5a5a);
    let is_port = |a: u32| (0xfee000..=0xfee00a).contains(&a) || (0xffffd0..=0xffffda).contains(&a);
    let mut pass = |tf: &dyn Fn(u32) -> u8, m: &mut Machine| -> Vec<(u32, u32, &'static str)> {
        // write everywhere the bus accepts a write
        let mut werr = vec![false; 1 << 24];
        for a in 0..(1u32 << 24) {
            if m.cpu.bus.write(a, tf(a)).is_err() {
                werr[a as usize] = true;
            }
        }
        let mut iv: Vec<(u32, u32, &'static str)> = Vec::new();
        for a in 0..(1u32 << 24) {
            let o = match m.cpu.bus.read(a) {
                Err(_) => "err",
                Ok(_) if werr[a as usize] => "err",
                Ok(_) if is_port(a) => "port",
                Ok(v) if v == tf(a) => "same",
                Ok(_) => "differs",
            };
            match iv.last_mut() {
                Some(l) if l.2 == o => l.1 = a,
                _ => iv.push((a, a, o)),
            }
        }
        iv
    };
    let iv1 = pass(&t1, &mut m);
    // writes above 2^24 must fail and change nothing that the second pass would not notice
    let hiw: Vec<String> = hi.iter().map(|&a| format!("[{},{},\"{}\"]", a >> 16, a & 0xffff, if m.cpu.bus.write(a as u32, 0xa5).is_ok() { "ok" } else { "err" })).collect();
    let iv1b = {
        // re-read after the failed high writes: everything must still read as written
        let mut iv: Vec<(u32, u32, &'static str)> = Vec::new();
        for a in 0..(1u32 << 24) {
            let o = match m.cpu.bus.read(a) {
                Err(_) => "err",
                Ok(_) if is_port(a) => "port",
                Ok(v) if v == t1(a) => "same",
                Ok(_) => "differs",
            };
            match iv.last_mut() {
                Some(l) if l.2 == o => l.1 = a,
                _ => iv.push((a, a, o)),
            }
        }
        iv
    };
    writeln!(w, "{{\"k\":\"scan\",\"id\":1,\"what\":\"store\",\"res\":\"scan\",\"iv\":{},\"hi\":[{}]}}", fmt_iv(&iv1), hiw.join(","))?;
    writeln!(w, "{{\"k\":\"scan\",\"id\":2,\"what\":\"store\",\"res\":\"scan\",\"iv\":{},\"hi\":[]}}", fmt_iv(&iv1b))?;
    let iv2 = pass(&t2, &mut m);
    writeln!(w, "{{\"k\":\"scan\",\"id\":3,\"what\":\"store\",\"res\":\"scan\",\"iv\":{},\"hi\":[]}}", fmt_iv(&iv2))?;
    w.flush()?;
    println!("{{\"driver\":\"bus-scan\",\"events\":4,\"addresses\":{},\"high_samples\":{}}}", 1u64 << 24, hi.len());
    Ok(())
}

// ------------------------------------------------------------------------------------------------
// C09 (b): interleaved histories of byte writes and reads on plain storage, region edges, holes
// ------------------------------------------------------------------------------------------------
fn hist_addr(rng: &mut Rng) -> u64 {
    let edges: [u64; 14] = [0x0, 0xff, 0x100, 0x3fffff, 0x400000, 0x5fffff, 0x600000, 0xfedfff, 0xfee000, 0xfee0ff, 0xfee100, 0xffbf1f, 0xffbf20, 0xffffe9];
    match rng.below(10) {
        0..=3 => {
            let e = rng.pick(&edges);
            (e + rng.below(9) as u64).saturating_sub(4)
        }
        4 => 0xffff1c + rng.below(8) as u64,                // RAM / I-O register seam
        5 => 0xffffe6 + rng.below(8) as u64,                // end of the I/O registers
        6 => 0x400000 + (rng.next() % 0x200000),
        7 => 0xffbf20 + (rng.next() % 0x4000),
        8 => rng.next() % 0x1000000,
        _ => 0x1000000 + (rng.next() % 0xff000000u64),      // above 2^24
    }
}

/// addresses in OTHER regions that share the low 8 / 16 bits with a peripheral register (timer 0, port DDR / DR):
/// a store there must have no effect on the peripheral ("no write ever changes what any other location reads")
fn mirror_addr(rng: &mut Rng) -> u64 {
    let regs: [u64; 12] = [0xffff80, 0xffff82, 0xffff84, 0xffff86, 0xffff88, 0xfee000, 0xfee003, 0xfee00a, 0xffffd0, 0xffffd3, 0xffffda, 0xffff81];
    let r = rng.pick(&regs);
    let lo8 = r & 0xff;
    let lo16 = r & 0xffff;
    match rng.below(7) {
        0 => 0xfee000 | lo8,
        1 => if lo8 >= 0x20 { 0xffbf00 | lo8 } else { 0xffc000 | lo8 },
        2 => 0xfffe00 | lo8,
        3 => 0x400000 | lo16,
        4 => 0x5f0000 | lo16,
        5 => lo8,
        _ => if lo8 <= 0xe9 && lo8 >= 0x20 { 0xffff00 | lo8 } else { 0xffd000 | lo8 },
    }
}

pub fn run_bus_history(args: &Args) -> Result<()> {
    let outdir = args.req("out")?.to_string();
    let seed = args.num("seed", 1);
    let tier = args.get("tier").unwrap_or("quick");
    let threads = args.num("threads", 8) as usize;
    std::fs::create_dir_all(&outdir)?;
    let n_hist = if tier == "thorough" { 2600 } else { 260 };
    let mut handles = Vec::new();
    for t in 0..threads {
        let outdir = outdir.clone();
        handles.push(std::thread::spawn(move || -> Result<u64> {
            let mut h = Hist::new(&format!("{}/thr_hist_{:02}.ndjson", outdir, t), if t % 2 == 0 { Bg::Zero } else { Bg::Tag })?;
            let mut rng = Rng::new(seed ^ hash_str("C09hist"), t as u64);
            for hn in 0..n_hist {
                h.reset()?;
                if hn % 4 == 3 {
                    // side-effect aliasing: stores to look-alike addresses, elapsed time, reads of the peripherals
                    let timer_on = rng.chance(1, 2);
                    if timer_on {
                        h.bw(0xffff84, 0xf0)?;
                        h.bw(0xffff80, [1u8, 2, 0x41][rng.below(3) as usize])?;
                    }
                    let len = 8 + rng.below(16);
                    for _ in 0..len {
                        match rng.below(6) {
                            0 | 1 => h.bw(mirror_addr(&mut rng), [0u8, 1, 2, 3, 0x49, 0xff, 0x0f][rng.below(7) as usize])?,
                            2 => {
                                if rng.chance(1, 3) {
                                    // a pin report for a port that does not exist changes nothing, wherever it would land
                                    h.pin([0u8, 12, 13, 16, 200, 255][rng.below(6) as usize], rng.u8())?;
                                    h.br([0xffffdbu64, 0xfee00b, 0xffffcf, 0xffffdc][rng.below(4) as usize])?
                                } else {
                                    h.tick([8u8, 64, 200, 255][rng.below(4) as usize])?
                                }
                            }
                            3 => h.br([0xffff88u64, 0xffff82, 0xffff80, 0xffffd0, 0xffffd3, 0xffffda][rng.below(6) as usize])?,
                            _ => h.br(mirror_addr(&mut rng))?,
                        }
                    }
                    h.tick(200)?;
                    h.br(0xffff88)?;
                    h.br(0xffff82)?;
                    continue;
                }
                let mut pool: Vec<u64> = (0..6).map(|_| hist_addr(&mut rng)).collect();
                let len = 10 + rng.below(40);
                for _ in 0..len {
                    if rng.chance(1, 5) {
                        pool.push(hist_addr(&mut rng));
                    }
                    // neighbours of pooled addresses expose aliasing and stray writes
                    let a = match rng.below(4) {
                        0 => (rng.pick(&pool) + 1) & 0xffffffff,
                        1 => rng.pick(&pool).saturating_sub(1),
                        _ => rng.pick(&pool),
                    };
                    if rng.chance(1, 2) {
                        h.bw(a, rng.u8())?;
                    } else {
                        h.br(a)?;
                    }
                }
            }
            h.w.flush()?;
            Ok(h.id)
        }));
    }
    let mut n = 0;
    for hd in handles {
        n += hd.join().map_err(|_| anyhow!("thread"))??;
    }
    println!("{{\"driver\":\"bus-history\",\"events\":{},\"histories\":{}}}", n, n_hist * threads);
    Ok(())
}

// ------------------------------------------------------------------------------------------------
// C16: replay TLC-generated port histories (and random longer ones) into the real Bus
// ------------------------------------------------------------------------------------------------
/// configuration registers of block 1 that are NOT port registers (pull-up control, bus controller, ...): stores
/// there in the middle of a port history must not change what the ports read or announce
const OTHER_IO1: [u64; 8] = [0xfee03c, 0xfee03e, 0xfee03f, 0xfee00b, 0xfee012, 0xfee01c, 0xfee040, 0xfee0ff];
fn apply_port_op(h: &mut Hist, op: &str, port: u8, v: u8, rng: &mut Rng) -> Result<()> {
    if rng.chance(1, 12) {
        h.bw(rng.pick(&OTHER_IO1), rng.pick(&[0xffu8, 0x0f, 0xa5, 0x01]))?;
    }
    // time stamps: non-decreasing, sometimes equal
    let adv = if rng.chance(1, 3) { 0 } else { rng.below(5000) };
    let s = h.sum + adv;
    h.set_sum(s);
    match op {
        "ddr" => h.bw(0xfee000 + port as u64 - 1, v),
        "dr" => h.bw(0xffffd0 + port as u64 - 1, v),
        "pin" => h.pin(port, v),
        "rd" => h.br(0xffffd0 + port as u64 - 1),
        _ => Err(anyhow!("unknown port op {}", op)),
    }
}

pub fn run_port_replay(args: &Args) -> Result<()> {
    let outdir = args.req("out")?.to_string();
    let seed = args.num("seed", 1);
    let tier = args.get("tier").unwrap_or("quick").to_string();
    let threads = args.num("threads", 8) as usize;
    std::fs::create_dir_all(&outdir)?;
    // behaviours generated by TLC: one JSON array per line: [[op, portslot, value], ...]
    let mut behaviours: Vec<Vec<(String, u8, u8)>> = Vec::new();
    if let Some(p) = args.get("in") {
        for line in std::fs::read_to_string(p)?.lines() {
            let v: serde_json::Value = serde_json::from_str(line)?;
            let mut b = Vec::new();
            for op in v.as_array().ok_or_else(|| anyhow!("behaviour"))? {
                b.push((op[0].as_str().unwrap_or("").to_string(), op[1].as_u64().unwrap_or(1) as u8, op[2].as_u64().unwrap_or(0) as u8));
            }
            behaviours.push(b);
        }
    }
    let behaviours = std::sync::Arc::new(behaviours);
    let nb = behaviours.len();
    let n_random = if tier == "thorough" { 4000 } else { 400 };
    let mut handles = Vec::new();
    for t in 0..threads {
        let outdir = outdir.clone();
        let behaviours = behaviours.clone();
        handles.push(std::thread::spawn(move || -> Result<(u64, u64)> {
            let mut h = Hist::new(&format!("{}/thr_port_{:02}.ndjson", outdir, t), Bg::Zero)?;
            let mut rng = Rng::new(seed ^ hash_str("C16"), t as u64);
            let mut nh = 0u64;
            let lo = nb * t / threads;
            let hi = nb * (t + 1) / threads;
            for (k, b) in behaviours[lo..hi].iter().enumerate() {
                h.reset()?;
                nh += 1;
                // slot 1 / slot 2 of the abstract history are mapped to concrete ports; all 11 ports (and
                // all pairs over time) are visited
                let p1 = ((lo + k) % 11) as u8 + 1;
                let p2 = ((p1 as usize + (lo + k) / 11 % 10) % 11) as u8 + 1;
                for (op, slot, v) in b {
                    let port = if *slot == 1 { p1 } else { p2 };
                    apply_port_op(&mut h, op, port, *v, &mut rng)?;
                }
            }
            // random longer histories over all ports, arbitrary byte values, invalid port numbers for pins
            for _ in 0..(n_random / threads.max(1)) {
                h.reset()?;
                nh += 1;
                let len = 20 + rng.below(40);
                let focus = [(rng.below(11) + 1) as u8, (rng.below(11) + 1) as u8, (rng.below(11) + 1) as u8];
                for _ in 0..len {
                    let port = rng.pick(&focus);
                    let v = match rng.below(5) {
                        0 => 0x00,
                        1 => 0xff,
                        2 => rng.pick(&[0x0fu8, 0xf0, 0xa5, 0x5a, 0x01, 0x80]),
                        _ => rng.u8(),
                    };
                    match rng.below(20) {
                        0..=5 => apply_port_op(&mut h, "ddr", port, v, &mut rng)?,
                        6..=11 => apply_port_op(&mut h, "dr", port, v, &mut rng)?,
                        12..=16 => apply_port_op(&mut h, "pin", port, v, &mut rng)?,
                        17 => apply_port_op(&mut h, "pin", rng.pick(&[0u8, 12, 13, 0x10, 0xff, 0x80]), v, &mut rng)?,
                        _ => apply_port_op(&mut h, "rd", port, 0, &mut rng)?,
                    }
                }
            }
            h.w.flush()?;
            Ok((h.id, nh))
        }));
    }
    let (mut n, mut nh) = (0, 0);
    for hd in handles {
        let (a, b) = hd.join().map_err(|_| anyhow!("thread"))??;
        n += a;
        nh += b;
    }
    println!("{{\"driver\":\"port-replay\",\"events\":{},\"histories\":{},\"tlc_behaviours\":{}}}", n, nh, nb);
    Ok(())
}

// ------------------------------------------------------------------------------------------------
// C17: timer histories - register set-up, charges 1..255 in every partition, interleaved CPU writes
// ------------------------------------------------------------------------------------------------
const TCR: u64 = 0xffff80;
const TCSR: u64 = 0xffff82;
const TCORA: u64 = 0xffff84;
const TCORB: u64 = 0xffff86;
const TCNT: u64 = 0xffff88;
const CHARGES: [u8; 16] = [1, 2, 3, 7, 8, 9, 15, 16, 17, 63, 64, 65, 100, 128, 200, 255];

pub fn run_timer_replay(args: &Args) -> Result<()> {
    let outdir = args.req("out")?.to_string();
    let seed = args.num("seed", 1);
    let tier = args.get("tier").unwrap_or("quick").to_string();
    let threads = args.num("threads", 8) as usize;
    std::fs::create_dir_all(&outdir)?;
    // TLC-generated schedules (optional): [["w", reg, value] | ["t", n, 0], ...]
    let mut sched: Vec<Vec<(String, u32, u32)>> = Vec::new();
    if let Some(p) = args.get("in") {
        for line in std::fs::read_to_string(p)?.lines() {
            let v: serde_json::Value = serde_json::from_str(line)?;
            let mut b = Vec::new();
            for op in v.as_array().ok_or_else(|| anyhow!("behaviour"))? {
                b.push((op[0].as_str().unwrap_or("").to_string(), op[1].as_u64().unwrap_or(0) as u32, op[2].as_u64().unwrap_or(0) as u32));
            }
            sched.push(b);
        }
    }
    let sched = std::sync::Arc::new(sched);
    let ns = sched.len();
    let n_random = if tier == "thorough" { 60000 } else { 8000 };
    let mut handles = Vec::new();
    for t in 0..threads {
        let outdir = outdir.clone();
        let sched = sched.clone();
        handles.push(std::thread::spawn(move || -> Result<(u64, u64)> {
            let mut h = Hist::new(&format!("{}/thr_timer_{:02}.ndjson", outdir, t), Bg::Zero)?;
            let mut rng = Rng::new(seed ^ hash_str("C17"), t as u64);
            let mut nh = 0u64;
            let regaddr = |r: u32| -> u64 {
                match r {
                    0 => TCR,
                    1 => TCSR,
                    2 => TCORA,
                    3 => TCORB,
                    _ => TCNT,
                }
            };
            for b in sched[ns * t / threads..ns * (t + 1) / threads].iter() {
                h.reset()?;
                nh += 1;
                for (op, x, y) in b {
                    if op == "w" {
                        h.bw(regaddr(*x), *y as u8)?;
                    } else {
                        h.tick(*x as u8)?;
                    }
                }
            }
            // one backlog history per thread: compare match every 2 counts on clock/8, all enables, the queue left to
            // grow to 320 requests - each event raises exactly one request however many are outstanding
            {
                h.reset()?;
                nh += 1;
                h.keep_pending = true;
                h.bw(TCORA, 2)?;
                h.bw(TCORB, 0xf0)?;
                h.bw(TCR, 0x49)?;
                for _ in 0..(320 * 16 / 240 + 2) {
                    h.tick(240)?;
                }
                h.keep_pending = false;
                h.m.cpu.vh_clear_pending();
            }
            for k in 0..(n_random / threads.max(1)) {
                h.reset()?;
                nh += 1;
                // set-up: compare registers, start value, then the clock; TCORA != TCORB and both non-zero when a
                // clear source is selected (the property's domain), other combinations now and then
                let tcr = if k % 3 == 0 { (k / 3 % 256) as u8 } else { rng.u8() };
                let cclr = (tcr >> 3) & 3;
                let (mut a, mut b) = (rng.u8(), rng.u8());
                if rng.chance(1, 3) {
                    a = rng.pick(&[1u8, 2, 3, 5, 0x10, 0x7f, 0x80, 0xfe, 0xff]);
                    b = rng.pick(&[1u8, 2, 4, 6, 0x20, 0x81, 0xfd, 0xff]);
                }
                if (cclr == 1 || cclr == 2) && !rng.chance(1, 25) {
                    if a == 0 {
                        a = 1;
                    }
                    if b == 0 {
                        b = 2;
                    }
                    if a == b {
                        b = if a == 0xff { 0xfe } else { a + 1 };
                    }
                }
                h.bw(TCORA, a)?;
                h.bw(TCORB, b)?;
                let start = match rng.below(4) {
                    0 => 0,
                    1 => a.wrapping_sub(rng.below(4) as u8),
                    2 => 0xff - rng.below(4) as u8,
                    _ => rng.u8(),
                };
                h.bw(TCNT, start)?;
                if rng.chance(1, 4) {
                    h.bw(TCSR, rng.u8() & 0xe0)?;
                }
                h.bw(TCR, tcr)?;
                let len = 6 + rng.below(30);
                for _ in 0..len {
                    match rng.below(24) {
                        0 => h.bw(TCR, if rng.chance(1, 2) { (tcr & 0xf8) | (rng.u8() & 3) } else { rng.u8() })?, // clock change
                        1 => h.bw(TCR, (tcr & 0x07) | (rng.u8() & 0xf8))?,                                        // same clock, other bits
                        2 => h.bw(TCNT, rng.u8())?,
                        3 => h.bw(TCSR, 0)?, // CPU clears the flags
                        4 => {
                            let v = rng.u8();
                            if v != 0 {
                                h.bw(if rng.chance(1, 2) { TCORA } else { TCORB }, v)?
                            }
                        }
                        5 => h.br(TCNT)?,
                        _ => {
                            let n = if rng.chance(2, 3) { rng.pick(&CHARGES) } else { rng.u8().max(1) };
                            h.tick(n)?
                        }
                    }
                }
            }
            h.w.flush()?;
            Ok((h.id, nh))
        }));
    }
    let (mut n, mut nh) = (0, 0);
    for hd in handles {
        let (a, b) = hd.join().map_err(|_| anyhow!("thread"))??;
        n += a;
        nh += b;
    }
    println!("{{\"driver\":\"timer-replay\",\"events\":{},\"histories\":{},\"tlc_behaviours\":{}}}", n, nh, ns);
    Ok(())
}
