//! h8drive — conformance drivers for the TLA+ specification of the H8/3069F emulator.
//!
//! Each sub-command instantiates inputs (from the form table exported by TLC, from TLC-generated
//! schedules, or from seeded random choice), calls the REAL emulator built from /repo with
//! `--cfg koge29_verif`, and writes one ndjson event per linearisation point.  There is no oracle
//! here: all expected values are computed by TLC from the specification (spec/TraceH8.tla).
mod asm;
mod bus;
mod cases;
mod cost;
mod elfgen;
mod forms;
mod gen;
mod machine;
mod mes;
mod replay;
mod rng;
mod runloop;
mod stepped;
mod sweep;

use anyhow::{anyhow, Result};
use std::collections::HashMap;

pub struct Args {
    pub cmd: String,
    pub kv: HashMap<String, String>,
}
impl Args {
    pub fn get(&self, k: &str) -> Option<&str> {
        self.kv.get(k).map(|s| s.as_str())
    }
    pub fn req(&self, k: &str) -> Result<&str> {
        self.get(k).ok_or_else(|| anyhow!("missing --{}", k))
    }
    pub fn from_pairs(p: &[(&str, &str)]) -> Args {
        Args { cmd: String::new(), kv: p.iter().map(|(k, v)| (k.to_string(), v.to_string())).collect() }
    }
    pub fn num(&self, k: &str, d: u64) -> u64 {
        self.get(k).and_then(|s| s.parse().ok()).unwrap_or(d)
    }
}

fn parse_args() -> Result<Args> {
    let mut it = std::env::args().skip(1);
    let cmd = it.next().ok_or_else(|| anyhow!("usage: h8drive <cmd> [--key value]..."))?;
    let mut kv = HashMap::new();
    while let Some(k) = it.next() {
        let k = k.trim_start_matches("--").to_string();
        let v = it.next().unwrap_or_default();
        kv.insert(k, v);
    }
    Ok(Args { cmd, kv })
}

fn main() {
    let args = match parse_args() {
        Ok(a) => a,
        Err(e) => {
            eprintln!("{}", e);
            std::process::exit(2);
        }
    };
    // anyhow captures a backtrace per error when RUST_BACKTRACE is set: far too slow for sweeps that
    // provoke millions of (expected) bus errors
    std::env::set_var("RUST_BACKTRACE", "0");
    std::env::set_var("RUST_LIB_BACKTRACE", "0");
    machine::install_quiet_panic_hook();
    let r = match args.cmd.as_str() {
        "step-cases" => cases::run_step_cases(&args),
        "replay" => if args.get("out").map(|o| o.ends_with(".ndjson")).unwrap_or(false) { cases::run_replay(&args) } else { replay::run_replay_any(&args) },
        "decode-sweep" => sweep::run_sweep(&args, false),
        "panic-sweep" => sweep::run_sweep(&args, true),
        "mes-cases" => mes::run_mes(&args),
        "cost-table" => cost::run_cost(&args),
        "elf-load" => elfgen::run_elf_load(&args),
        "example-run" => runloop::run_example_run(&args),
        "run-program" => runloop::run_run_program(&args),
        "sock-replay" => runloop::run_sock_replay(&args),
        "tcp-lines" => runloop::run_tcp_lines(&args),
        "tcp-frame" => runloop::run_tcp_frame(&args),
        "irq-replay" => stepped::run_irq_replay(&args),
        "acc-cases" => stepped::run_acc_cases(&args),
        "handler-cases" => stepped::run_handler_cases(&args),
        "callret" => stepped::run_callret(&args),
        "bus-scan" => bus::run_scan(&args),
        "bus-history" => bus::run_bus_history(&args),
        "port-replay" => bus::run_port_replay(&args),
        "timer-replay" => bus::run_timer_replay(&args),
        _ => Err(anyhow!("unknown command {}", args.cmd)),
    };
    if let Err(e) = r {
        eprintln!("h8drive: tool error: {:#}", e);
        std::process::exit(2);
    }
}
