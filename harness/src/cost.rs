//! `cost-table` (C19): the real Cpu::calc_state / calc_state_with_addr over the exhaustive per-area
//! setting space (bus width x access states x wait field x DRAM select) x six cycle kinds x
//! counts 1-5 x both ends of every area, with the OTHER areas' bits filled four different ways.
use crate::machine::*;
use crate::rng::{hash_str, Rng};
use crate::Args;
use anyhow::Result;
use emu::cpu::StateType;
use std::io::{BufWriter, Write};

fn kind_of(k: usize) -> StateType {
    match k {
        0 => StateType::I,
        1 => StateType::J,
        2 => StateType::K,
        3 => StateType::L,
        4 => StateType::M,
        _ => StateType::N,
    }
}
const KN: [&str; 6] = ["I", "J", "K", "L", "M", "N"];

pub fn run_cost(args: &Args) -> Result<()> {
    let outdir = args.req("out")?.to_string();
    let seed = args.num("seed", 1);
    std::fs::create_dir_all(&outdir)?;
    let mut rng = Rng::new(seed ^ hash_str("C19"), 5);
    let mut m = Machine::new(Bg::Zero);
    let mut id = 0u64;
    let mut files = 0;
    let mut w = BufWriter::with_capacity(1 << 20, std::fs::File::create(format!("{}/cost_{:02}.ndjson", outdir, files))?);
    let mut n_settings = 0u64;
    let fill_random: [[u8; 5]; 2] = [[rng.u8(), rng.u8(), rng.u8(), rng.u8(), rng.u8()], [rng.u8(), rng.u8(), rng.u8(), rng.u8(), rng.u8()]];
    for area in 0..8u32 {
        let lo = area * 0x200000;
        let hi = lo + 0x1fffff;
        let mut addrs = vec![lo, hi, lo + 0x100000 + (rng.u32() & 0xffff0)];
        if area == 7 {
            // keep out of the on-chip I/O register ranges (documented TODO in the emulator)
            addrs = vec![lo, 0xffffff, 0xffbf1f, 0xfeffff, lo + (rng.u32() & 0xffff0)];
        }
        for w8 in 0..2u8 {
            for s3 in 0..2u8 {
                for wait in 0..4u8 {
                    for dras in 0..8u8 {
                        for fill in 0..4 {
                            let base: [u8; 5] = match fill {
                                0 => [0, 0, 0, 0, 0],
                                1 => [0xff, 0xff, 0xff, 0xff, 0x1f],
                                f => fill_random[f - 2],
                            };
                            let mut br = base;
                            br[0] = (br[0] & !(1 << area)) | (w8 << area);
                            br[1] = (br[1] & !(1 << area)) | (s3 << area);
                            if area < 4 {
                                br[3] = (br[3] & !(3 << (2 * area))) | (wait << (2 * area));
                            } else {
                                br[2] = (br[2] & !(3 << (2 * (area - 4)))) | (wait << (2 * (area - 4)));
                            }
                            br[4] = (br[4] & 0x1f) | (dras << 5);
                            n_settings += 1;
                            m.cpu.bus.io_registrs1[0x20] = br[0];
                            m.cpu.bus.io_registrs1[0x21] = br[1];
                            m.cpu.bus.io_registrs1[0x22] = br[2];
                            m.cpu.bus.io_registrs1[0x23] = br[3];
                            m.cpu.bus.io_registrs1[0x26] = br[4];
                            for &a in &addrs {
                                for k in 0..6 {
                                    for n in 1..=5u8 {
                                        let via_pc = k != 3 && k != 4 && (n + k as u8) % 2 == 0;
                                        let r = if via_pc {
                                            m.cpu.vh_set_operating_pc(a);
                                            m.cpu.calc_state(kind_of(k), n)
                                        } else {
                                            m.cpu.calc_state_with_addr(kind_of(k), n, a)
                                        };
                                        let (res, v) = match r {
                                            Ok(v) => ("ok", v as i64),
                                            Err(_) => ("err", -1),
                                        };
                                        writeln!(w, "{{\"k\":\"cost\",\"id\":{},\"kind\":\"{}\",\"n\":{},\"a\":{},\"br\":{},\"res\":\"{}\",\"v\":{},\"via\":\"{}\"}}",
                                                 id, KN[k], n, a, j_bytes(&br), res, v, if via_pc { "pc" } else { "addr" })?;
                                        id += 1;
                                        if id % 60000 == 0 {
                                            w.flush()?;
                                            files += 1;
                                            w = BufWriter::with_capacity(1 << 20, std::fs::File::create(format!("{}/cost_{:02}.ndjson", outdir, files))?);
                                        }
                                    }
                                }
                            }
                        }
                    }
                }
            }
        }
    }
    // on-chip RAM: both ends, all kinds, a few settings
    for fill in 0..4 {
        let br: [u8; 5] = match fill {
            0 => [0, 0, 0, 0, 0],
            1 => [0xff, 0xff, 0xff, 0xff, 0xff],
            f => fill_random[f - 2],
        };
        m.cpu.bus.io_registrs1[0x20] = br[0];
        m.cpu.bus.io_registrs1[0x21] = br[1];
        m.cpu.bus.io_registrs1[0x22] = br[2];
        m.cpu.bus.io_registrs1[0x23] = br[3];
        m.cpu.bus.io_registrs1[0x26] = br[4];
        for &a in &[RAM_LO, RAM_HI, RAM_LO + 1, RAM_HI - 1, 0xffd000] {
            for k in 0..6 {
                for n in 1..=5u8 {
                    let r = m.cpu.calc_state_with_addr(kind_of(k), n, a);
                    let (res, v) = match r {
                        Ok(v) => ("ok", v as i64),
                        Err(_) => ("err", -1),
                    };
                    writeln!(w, "{{\"k\":\"cost\",\"id\":{},\"kind\":\"{}\",\"n\":{},\"a\":{},\"br\":{},\"res\":\"{}\",\"v\":{},\"via\":\"addr\"}}", id, KN[k], n, a, j_bytes(&br), res, v)?;
                    id += 1;
                }
            }
        }
    }
    w.flush()?;
    println!("{{\"driver\":\"cost-table\",\"events\":{},\"settings\":{}}}", id, n_settings);
    Ok(())
}
