//! `replay`: re-drive the events of a replay file on the CURRENT tree and record them again, so that
//! `bin/check <id> --replay <file>` judges today's code, not yesterday's recording.
//!   case events (single instructions)            -> executed again (cases::run_replay)
//!   cost events (one evaluation of the cost fn)  -> evaluated again
//!   bus / port / timer histories (reset ...)     -> the recorded operations applied again to a fresh machine
//!   stepped threads (load, req, acc, step, end)  -> the same requests / boundaries / steps again
//!   run-loop traces (load/snap, poll, it, ret)   -> cannot be re-driven from the trace alone (the ELF file and
//!                                                   the line schedule are not in it): copied, i.e. the RECORDED
//!                                                   behaviour is validated again
//! Prints one JSON line {"module": ..., "file": ..., "mode": "redriven" | "recorded"} for the orchestrator.
use crate::bus::Hist;
use crate::machine::*;
use crate::stepped::Thread;
use crate::Args;
use anyhow::{anyhow, Result};
use emu::cpu::StateType;
use std::io::Write;

fn u(v: &serde_json::Value) -> u64 {
    v.as_u64().unwrap_or(0)
}
fn pair(v: &serde_json::Value) -> u64 {
    (u(&v[0]) << 16) | u(&v[1])
}

pub fn run_replay_any(args: &Args) -> Result<()> {
    let input = args.req("in")?.to_string();
    let outdir = args.req("out")?.to_string();
    std::fs::create_dir_all(&outdir)?;
    let text = std::fs::read_to_string(&input)?;
    let evs: Vec<serde_json::Value> = text.lines().filter(|l| !l.trim().is_empty()).map(serde_json::from_str).collect::<std::result::Result<_, _>>()?;
    if evs.is_empty() {
        return Err(anyhow!("empty replay file"));
    }
    let kinds: std::collections::HashSet<String> = evs.iter().map(|e| e["k"].as_str().unwrap_or("").to_string()).collect();
    let has = |k: &str| kinds.contains(k);
    let report = |module: &str, file: &str, mode: &str| println!("{{\"module\":\"{}\",\"file\":\"{}\",\"mode\":\"{}\"}}", module, file, mode);
    if has("case") {
        let out = format!("{}/replayed.ndjson", outdir);
        let a2 = Args::from_pairs(&[("in", &input), ("out", &out)]);
        crate::cases::run_replay(&a2)?;
        report("TraceH8.tla", &out, "redriven");
    } else if has("cost") {
        let out = format!("{}/replayed.ndjson", outdir);
        let mut w = std::io::BufWriter::new(std::fs::File::create(&out)?);
        let mut m = Machine::new(Bg::Zero);
        for e in &evs {
            let br: Vec<u8> = e["br"].as_array().map(|a| a.iter().map(|x| u(x) as u8).collect()).unwrap_or_default();
            if br.len() != 5 {
                continue;
            }
            for (i, off) in [0x20usize, 0x21, 0x22, 0x23, 0x26].iter().enumerate() {
                m.cpu.bus.io_registrs1[*off] = br[i];
            }
            let kind = e["kind"].as_str().unwrap_or("N");
            let st = match kind {
                "I" => StateType::I,
                "J" => StateType::J,
                "K" => StateType::K,
                "L" => StateType::L,
                "M" => StateType::M,
                _ => StateType::N,
            };
            let n = u(&e["n"]) as u8;
            let a = u(&e["a"]) as u32;
            let via = e["via"].as_str().unwrap_or("addr");
            let r = if via == "pc" {
                m.cpu.vh_set_operating_pc(a);
                m.cpu.calc_state(st, n)
            } else {
                m.cpu.calc_state_with_addr(st, n, a)
            };
            let (res, v) = match r {
                Ok(v) => ("ok", v as i64),
                Err(_) => ("err", -1),
            };
            writeln!(w, "{{\"k\":\"cost\",\"id\":{},\"kind\":\"{}\",\"n\":{},\"a\":{},\"br\":{},\"res\":\"{}\",\"v\":{},\"via\":\"{}\"}}", u(&e["id"]), kind, n, a, j_bytes(&br), res, v, via)?;
        }
        w.flush()?;
        report("TraceH8.tla", &out, "redriven");
    } else if has("reset") {
        let out = format!("{}/thr_replayed.ndjson", outdir);
        let bg = if evs.iter().find(|e| e["k"] == "reset").map(|e| e["bg"] == "tag").unwrap_or(false) { Bg::Tag } else { Bg::Zero };
        let mut h = Hist::new(&out, bg)?;
        for e in &evs {
            match e["k"].as_str().unwrap_or("") {
                "reset" => h.reset()?,
                "bw" => {
                    if e["sum"].is_u64() {
                        h.set_sum(u(&e["sum"]) as usize);
                    }
                    h.bw(pair(&e["a"]), u(&e["v"]) as u8)?
                }
                "br" => h.br(pair(&e["a"]))?,
                "pin" => {
                    if e["sum"].is_u64() {
                        h.set_sum(u(&e["sum"]) as usize);
                    }
                    h.pin(u(&e["port"]) as u8, u(&e["v"]) as u8)?
                }
                "tick" => h.tick(u(&e["n"]) as u8)?,
                _ => {}
            }
        }
        h.w.flush()?;
        report("TraceBus.tla", &out, "redriven");
    } else if has("acc") || has("step") || has("req") {
        let out = format!("{}/thr_replayed.ndjson", outdir);
        let bg = if evs.iter().find(|e| e["k"] == "load").map(|e| e["bg"] == "tag").unwrap_or(true) { Bg::Tag } else { Bg::Zero };
        let mut th = Thread::new(&out, bg)?;
        // The drivers are adaptive (they step until the program reaches its end label), so the recorded NUMBER of
        // steps belongs to the recorded behaviour.  Re-driving keeps the inputs - the loaded state, and each request
        // at the boundary where it was made (after the same number of executed instructions) - and the policy:
        // boundary + step until the end label (or an error, or the step budget), then `end`.
        let mut exit: Option<u32> = None;
        let mut alive = false;
        let mut steps = 0u32;
        let at_end = |th: &Thread, exit: Option<u32>| exit.map(|x| th.m.get_regs().pc == x).unwrap_or(false);
        for e in &evs {
            match e["k"].as_str().unwrap_or("") {
                "load" => {
                    let pre: Vec<u32> = e["pre"].as_array().ok_or_else(|| anyhow!("pre"))?.iter().map(|x| u(x) as u32).collect();
                    let mut regs = Regs::default();
                    for i in 0..8 {
                        regs.er[i] = (pre[2 * i] << 16) | pre[2 * i + 1];
                    }
                    regs.ccr = pre[16] as u8;
                    regs.pc = (pre[17] << 16) | pre[18];
                    let mut pokes: Vec<(u32, u8)> = Vec::new();
                    for run in e["pk"].as_array().ok_or_else(|| anyhow!("pk"))? {
                        let st = u(&run[0]) as u32;
                        for (i, b) in run[1].as_array().ok_or_else(|| anyhow!("run"))?.iter().enumerate() {
                            pokes.push((st + i as u32, u(b) as u8));
                        }
                    }
                    exit = if e["done"].is_array() { Some(pair(&e["done"]) as u32) } else { None };
                    th.load(&regs, &pokes, exit)?;
                    alive = true;
                    steps = 0;
                }
                "req" => th.request(u(&e["v"]) as u8)?,
                "acc" => {
                    if alive && !at_end(&th, exit) && th.boundary()? != "ok" {
                        alive = false;
                    }
                }
                "step" => {
                    if alive && !at_end(&th, exit) {
                        steps += 1;
                        if th.step()? != "ok" {
                            alive = false;
                        }
                    }
                }
                "end" => {
                    // to the end label, then a few idle boundaries so that everything still pending can be delivered
                    for round in 0..13 {
                        if round > 0 && alive && exit.is_some() && (th.boundary()? != "ok" || th.step()? != "ok") {
                            alive = false;
                        }
                        while alive && exit.is_some() && !at_end(&th, exit) && steps < 20_000 {
                            if th.boundary()? != "ok" || th.step()? != "ok" {
                                alive = false;
                            }
                            steps += 1;
                        }
                    }
                    th.end()?;
                }
                _ => {} // cmp events compare two runs of the driver: not reproducible from one history
            }
        }
        th.w.flush()?;
        report("TraceRun.tla", &out, "redriven");
    } else if has("it") || has("poll") || has("ret") || has("tcp") {
        // a trace that begins with its `load` event is driven again from the loaded state; one that begins with a
        // mid-run snapshot (or a TCP framing record) is validated as recorded
        let lite = args.get("lite").is_some();
        let out = format!("{}/thr_{}_replayed.ndjson", outdir, if lite { "lite" } else { "run" });
        *CONSOLE.lock().unwrap() = Some(ConsoleCapture::install(std::path::Path::new(&format!("{}/console.bin", outdir)))?);
        // one run per `load` event in the file
        let _ = std::fs::remove_file(&out);
        let starts: Vec<usize> = evs.iter().enumerate().filter(|(_, e)| e["k"] == "load").map(|(i, _)| i).collect();
        let mut ok = !has("tcp") && !starts.is_empty() && starts[0] == 0;
        if ok {
            for (n, &st) in starts.iter().enumerate() {
                let en = if n + 1 < starts.len() { starts[n + 1] } else { evs.len() };
                ok = ok && crate::runloop::redrive_run(&evs[st..en], &out, lite, (n as u64) * 1_000_000)?;
            }
        }
        *CONSOLE.lock().unwrap() = None;
        if ok {
            eprintln!("{{\"module\":\"TraceRun.tla\",\"file\":\"{}\",\"mode\":\"redriven\"}}", out);
        } else {
            let out = format!("{}/thr_recorded.ndjson", outdir);
            std::fs::write(&out, &text)?;
            eprintln!("{{\"module\":\"TraceRun.tla\",\"file\":\"{}\",\"mode\":\"recorded\"}}", out);
        }
    } else if has("elf") {
        // regenerated by the orchestrator through `elf-load --only` (the generator is a function of seed, tier and id)
        report("TraceElf.tla", "", "regenerate");
    } else {
        let out = format!("{}/recorded.ndjson", outdir);
        std::fs::write(&out, &text)?;
        report("TraceBus.tla", &out, "recorded");
    }
    Ok(())
}
