//! `step-cases`: single-instruction cases for the per-instruction properties
//! (C01-C08, C14, C15, C20), executed on the real Cpu, one `case` event each.
use crate::forms::{self, Form};
use crate::gen::*;
use crate::machine::*;
use crate::rng::{hash_str, Rng};
use crate::Args;
use anyhow::{anyhow, Result};
use std::io::{BufWriter, Write};
use std::sync::Arc;

pub fn case_event(id: u64, c: &Case, bg: Bg, out: &StepOut) -> String {
    let mut s = String::with_capacity(512);
    s.push_str(&format!(
        "{{\"k\":\"case\",\"id\":{},\"drv\":{},\"row\":{},\"bg\":\"{}\",\"pre\":{},\"pk\":{},\"pend\":{},\"res\":\"{}\",\"post\":{},\"wr\":{},\"st\":{},\"msgs\":{},\"con\":{}",
        id,
        j_str(&c.drv),
        j_str(&c.row),
        bg.name(),
        j_u32s(&c.regs.vec19()),
        j_runs(&c.pokes),
        j_bytes(&c.pend),
        out.res,
        j_u32s(&out.post.vec19()),
        j_pairs(&out.wr),
        out.st,
        j_msgs(&out.msgs),
        j_bytes(&out.con)
    ));
    if out.res == "panic" {
        let mut n = out.note.clone();
        n.truncate(160);
        s.push_str(&format!(",\"panic_at\":{}", j_str(&n)));
    }
    s.push('}');
    s
}

pub fn exec_case(m: &mut Machine, c: &Case) -> StepOut {
    for &(a, b) in &c.pokes {
        m.poke(a, b);
    }
    m.set_regs(&c.regs);
    for &v in &c.pend {
        m.cpu.vh_request_interrupt(v);
    }
    let out = m.step();
    m.restore(&out.wr);
    out
}

/// "A used machine": before the cases of a thread, the emulator object goes through a short unlogged history -
/// handlers installed through the set_handler call for a few vectors, the timer started, run and stopped - and the
/// memory is put back.  Architecturally nothing is left of it; an implementation that keeps hidden state
/// (caches, protection bits, stale residues) carries it into the cases that follow, where the properties still hold.
pub fn prime(m: &mut Machine) {
    let b = BUS_INIT;
    for (i, v) in [1u32, 7, 12, 24, 36, 37, 39, 63].iter().enumerate() {
        let blk = 0xffd100u32;
        let mut pokes = vec![(ABWCR, b[0]), (ASTCR, b[1]), (WCRH, b[2]), (WCRL, b[3]), (DRCRA, b[4])];
        for (k, byte) in v.to_be_bytes().iter().chain((0xffe000u32 + 16 * i as u32).to_be_bytes().iter()).enumerate() {
            pokes.push((blk + k as u32, *byte));
        }
        let mut regs = Regs::default();
        regs.er[0] = 113;
        regs.er[1] = blk;
        regs.er[7] = 0xffef00;
        regs.pc = 0xffc000;
        let c = case_from_words("prime", "", &[0x5700], regs, 0xffc000, &pokes);
        let _ = exec_case(m, &c);
    }
    // an instruction fetch from unmapped memory (an error, reported and over): nothing of it may linger
    {
        let mut regs = Regs::default();
        regs.er[7] = 0xffef00;
        let c = case_from_words("prime", "", &[], regs, 0x200000, &[]);
        let _ = exec_case(m, &c);
    }
    for (a, v) in [(0xffff84u32, 0x10u8), (0xffff80, 0x01)] {
        let o = m.bus_write(a, v);
        m.commit(&o.wr);
    }
    let o = m.update_modules(200);
    m.commit(&o.wr);
    let o = m.bus_write(0xffff80, 0);
    m.commit(&o.wr);
    m.cpu.vh_clear_pending();
    let d = m.diff();
    m.restore(&d);
}

/// A job = (form index, case number within the form, generator kind)
#[derive(Clone, Copy)]
pub struct Job {
    pub fi: usize,
    pub i: usize,
    pub kind: u8,
}

fn rows_for<'a>(forms: &'a [Form], prop: &str) -> Vec<&'a Form> {
    let mns: &[&str] = match prop {
        "C01" => &["MOV"],
        "C02" => &["ADD", "SUB", "CMP", "ADDX", "NEG", "INC", "DEC", "ADDS", "SUBS", "MULXU", "DIVXU"],
        "C03" => &["AND", "OR", "XOR", "NOT", "EXTU", "SHAL", "SHAR", "SHLL", "SHLR", "ROTL", "ROTR", "ROTXL", "ROTXR"],
        "C04" => &["BSET", "BCLR", "BNOT", "BTST", "BST", "BIST", "BLD", "BILD", "BAND", "BIAND", "BOR", "BIOR", "BXOR", "BIXOR"],
        "C05" => &["BCC", "JMP", "JSR", "BSR", "RTS"],
        "C06" => &["TRAPA", "RTE"],
        _ => &[],
    };
    forms
        .iter()
        .filter(|f| f.st == "impl")
        .filter(|f| match prop {
            "C08" => f.a.is_mem() || f.b.is_mem() || matches!(f.mn.as_str(), "JMP" | "JSR" | "BSR" | "RTS" | "RTE" | "TRAPA"),
            "C20" => true,
            "C09" => f.mn == "MOV" && f.sz >= 2 && (f.a.is_mem() || f.b.is_mem()),
            _ => mns.contains(&f.mn.as_str()),
        })
        .collect()
}

fn knobs_for(prop: &str) -> Knobs {
    let base = Knobs {
        drv: prop.to_string(),
        uppers: vec![0, 0x80, 0, 0x5a, 0, 0xff],
        pool: Pool::Plain,
        io8: false,
        pcs: pcs_default(),
        bus: vec![BUS_INIT],
        avoid_overlap: true,
        odd_targets: false,
        odd_ea: false,
    };
    match prop {
        // bit instructions also operate on the timer / port register bytes reachable through @aa:8 (plain storage or,
        // for the port registers, judged by C16 only)
        "C04" => Knobs { io8: true, ..base },
        "C05" | "C06" => Knobs { uppers: vec![0, 0, 0x01, 0x80, 0xff, 0x5a], ..base },
        "C08" => Knobs { uppers: vec![0x00, 0x01, 0x7f, 0x80, 0xff, 0x5a, 0xa5], pool: Pool::Edges, ..base },
        "C09" => Knobs { pool: Pool::Edges, odd_ea: true, ..base },
        // C20 also instantiates data register = address register for @ERn+ / @-ERn (the charge is defined even there)
        "C20" => Knobs { bus: BUS_SETTINGS.to_vec(), pcs: vec![0xffc000, 0x400000, 0x41a000, 0xffe100, 0x5ff000], avoid_overlap: false, ..base },
        _ => base,
    }
}

pub fn run_step_cases(args: &Args) -> Result<()> {
    let prop = args.req("prop")?.to_string();
    let tier = args.get("tier").unwrap_or("quick").to_string();
    let forms = Arc::new(forms::load(args.req("forms")?)?);
    let outdir = args.req("out")?.to_string();
    let threads = args.num("threads", 8) as usize;
    let seed = args.num("seed", 1);
    let scale = args.num("scale", 100) as usize; // percent of the tier's default volume
    std::fs::create_dir_all(&outdir)?;

    let rows: Vec<usize> = rows_for(&forms, &prop).iter().map(|f| f.idx - 1).collect();
    if rows.is_empty() {
        return Err(anyhow!("no rows for property {}", prop));
    }
    let per_row = |f: &Form| -> usize {
        let base = match (prop.as_str(), tier.as_str()) {
            ("C05", "quick") if f.mn == "BCC" => 4096 * 2,
            ("C05", _) if f.mn == "BCC" => 4096 * 12,
            ("C20", "quick") => 240,
            ("C20", _) => 1200,
            ("C08", "quick") => 700,
            ("C08", _) => 5000,
            (_, "quick") => 1500,
            _ => 12000,
        };
        (base * scale / 100).max(16)
    };
    let mut jobs: Vec<Job> = Vec::new();
    for &fi in &rows {
        let n = per_row(&forms[fi]);
        for i in 0..n {
            jobs.push(Job { fi, i, kind: 0 });
        }
        // systematic value grid (C02 / C03): see gen::GRID_BASE
        let f = &forms[fi];
        let binary = matches!(f.mn.as_str(), "ADD" | "SUB" | "CMP" | "ADDX" | "AND" | "OR" | "XOR");
        let unary = matches!(f.mn.as_str(), "NEG" | "INC" | "DEC" | "NOT" | "EXTU" | "SHAL" | "SHAR" | "SHLL" | "SHLR" | "ROTL" | "ROTR" | "ROTXL" | "ROTXR");
        if (prop == "C02" || prop == "C03") && (binary || unary) && !f.a.is_mem() && !f.b.is_mem() {
            let thorough = tier != "quick";
            if unary {
                for rep in 0..(if thorough { 8 } else { 2 }) {
                    for pa in 0..256usize {
                        jobs.push(Job { fi, i: crate::gen::GRID_BASE + rep * 256 + pa, kind: 0 });   // rep only varies CCR / registers
                    }
                }
            } else if f.sz == 1 {
                let srcs: Vec<usize> = if thorough { (0..256).collect() } else { crate::gen::GRID_SRC_QUICK.iter().map(|x| *x as usize).collect() };
                for pb in srcs {
                    for pa in 0..256usize {
                        jobs.push(Job { fi, i: crate::gen::GRID_BASE + pb * 256 + pa, kind: 0 });
                    }
                }
            } else {
                let nsrc = if thorough { 256 } else { 10 };
                for q in 0..nsrc {
                    let pb = if thorough { q } else { [0x00usize, 0x55, 0xaa, 0xff, 0x1b, 0xe4, 0x39, 0xc6, 0x6c, 0x93][q] };
                    for pa in 0..256usize {
                        jobs.push(Job { fi, i: crate::gen::GRID_BASE + pb * 256 + pa, kind: 0 });
                    }
                }
            }
        }
    }
    let knobs = Arc::new(knobs_for(&prop));
    let jobs = Arc::new(jobs);
    let njobs = jobs.len();
    let mut handles = Vec::new();
    for t in 0..threads {
        let forms = forms.clone();
        let jobs = jobs.clone();
        let knobs = knobs.clone();
        let prop = prop.clone();
        let path = format!("{}/cases_{:02}.ndjson", outdir, t);
        handles.push(std::thread::spawn(move || -> Result<(u64, u64, u64)> {
            let mut m = Machine::new(Bg::Tag);
            prime(&mut m);
            let mut w = BufWriter::with_capacity(1 << 20, std::fs::File::create(&path)?);
            let (mut n, mut nerr, mut npanic) = (0u64, 0u64, 0u64);
            // contiguous slice per thread keeps each shard's events of one form together
            let lo = njobs * t / threads;
            let hi = njobs * (t + 1) / threads;
            for (k, job) in jobs[lo..hi].iter().enumerate() {
                let f = &forms[job.fi];
                let mut rng = Rng::new(seed ^ hash_str(&prop), (f.idx as u64) * 1_000_003 + job.i as u64);
                let c = gen_generic(f, job.i, &knobs, &mut rng);
                let out = exec_case(&mut m, &c);
                n += 1;
                if out.res == "err" {
                    nerr += 1;
                }
                if out.res == "panic" {
                    npanic += 1;
                }
                let id = (t as u64) * 10_000_000 + k as u64;
                writeln!(w, "{}", case_event(id, &c, Bg::Tag, &out))?;
            }
            w.flush()?;
            Ok((n, nerr, npanic))
        }));
    }
    let (mut n, mut ne, mut np) = (0, 0, 0);
    for h in handles {
        let (a, b, c) = h.join().map_err(|_| anyhow!("driver thread panicked"))??;
        n += a;
        ne += b;
        np += c;
    }
    println!("{{\"driver\":\"step-cases\",\"prop\":\"{}\",\"events\":{},\"err\":{},\"panic\":{},\"rows\":{}}}", prop, n, ne, np, rows.len());
    Ok(())
}

/// Re-execute recorded cases (replay file = ndjson of `case` events) on the freshly built code and
/// write the new observations, so that TLC can re-validate them.
pub fn run_replay(args: &Args) -> Result<()> {
    let input = args.req("in")?;
    let output = args.req("out")?;
    let text = std::fs::read_to_string(input)?;
    let mut m = Machine::new(Bg::Tag);
    let mut mz = Machine::new(Bg::Zero);
    prime(&mut m);
    prime(&mut mz);
    let mut w = BufWriter::new(std::fs::File::create(output)?);
    for line in text.lines() {
        if line.trim().is_empty() {
            continue;
        }
        let v: serde_json::Value = serde_json::from_str(line)?;
        if v["k"] != "case" {
            continue;
        }
        let pre: Vec<u32> = v["pre"].as_array().ok_or_else(|| anyhow!("pre"))?.iter().map(|x| x.as_u64().unwrap_or(0) as u32).collect();
        let mut regs = Regs::default();
        for i in 0..8 {
            regs.er[i] = (pre[2 * i] << 16) | pre[2 * i + 1];
        }
        regs.ccr = pre[16] as u8;
        regs.pc = (pre[17] << 16) | pre[18];
        let mut pokes: Vec<(u32, u8)> = Vec::new();
        for run in v["pk"].as_array().ok_or_else(|| anyhow!("pk"))? {
            let st = run[0].as_u64().unwrap_or(0) as u32;
            for (i, b) in run[1].as_array().ok_or_else(|| anyhow!("run"))?.iter().enumerate() {
                pokes.push((st + i as u32, b.as_u64().unwrap_or(0) as u8));
            }
        }
        let pend = v["pend"].as_array().map(|a| a.iter().map(|x| x.as_u64().unwrap_or(0) as u8).collect()).unwrap_or_default();
        let c = Case { drv: v["drv"].as_str().unwrap_or("").to_string(), row: v["row"].as_str().unwrap_or("").to_string(), regs, pokes, pend };
        let bg = if v["bg"] == "zero" { Bg::Zero } else { Bg::Tag };
        let mm = if bg == Bg::Zero { &mut mz } else { &mut m };
        let out = exec_case(mm, &c);
        writeln!(w, "{}", case_event(v["id"].as_u64().unwrap_or(0), &c, bg, &out))?;
    }
    w.flush()?;
    Ok(())
}
