//! `mes-cases` (C14): TRAPA #0 system calls of the MES emulation layer — `write` (104) with buffers
//! in on-chip RAM / DRAM over valid UTF-8 contents, `set_handler` (113) for all vector numbers,
//! other call numbers.  Single-threaded because the console (fd 1) is captured per step.
//! With --adversarial the argument blocks are hostile (C15: only "no panic" is judged).
use crate::cases::{case_event, exec_case};
use crate::gen::*;
use crate::machine::*;
use crate::rng::{hash_str, Rng};
use crate::Args;
use anyhow::Result;
use std::io::{BufWriter, Write};

fn utf8_bytes(len: usize, rng: &mut Rng) -> Vec<u8> {
    let mut v: Vec<u8> = Vec::with_capacity(len + 4);
    while v.len() + 4 <= len {
        let cp: u32 = match rng.below(12) {
            0 => 0,                                   // NUL
            1 => 0x0a,                                // newline
            2 => 0x5c,                                // backslash
            3 => 0x80 + rng.below(0x780) as u32,      // 2-byte
            4 => 0x800 + rng.below(0xd000) as u32,    // 3-byte (below the surrogates)
            5 => 0xe000 + rng.below(0x2000) as u32,   // 3-byte (above the surrogates)
            6 => 0x10000 + rng.below(0x100000) as u32, // 4-byte
            7 => rng.below(0x20) as u32,              // control
            _ => 0x20 + rng.below(0x5f) as u32,       // printable ASCII
        };
        if let Some(c) = char::from_u32(cp) {
            let mut buf = [0u8; 4];
            v.extend_from_slice(c.encode_utf8(&mut buf).as_bytes());
        }
    }
    // line ends as guest programs written for a serial terminal produce them: CR LF, LF CR, lone CR
    if len >= 4 && v.len() + 2 <= len && rng.chance(1, 3) {
        let at = rng.below(v.len().min(len).saturating_sub(1).max(1));
        let at = (0..=at).rev().find(|&i| i >= v.len() || v[i] & 0xc0 != 0x80).unwrap_or(0); // not inside a multi-byte sequence
        let ins: &[u8] = match rng.below(3) { 0 => b"\r\n", 1 => b"\n\r", _ => b"\r" };
        for (j, b) in ins.iter().enumerate() {
            v.insert((at + j).min(v.len()), *b);
        }
    }
    while v.len() < len {
        v.push(match rng.below(7) {
            0 => 0,
            1 => 0x0a,
            2 => 0x5c,
            3 => 0x0d,
            _ => 0x20 + rng.below(0x5f) as u8,
        });
    }
    v.truncate(len);
    // truncation cannot cut a sequence: the tail is padded with single bytes only
    v
}

fn put32(pokes: &mut Vec<(u32, u8)>, a: u32, v: u32) {
    for i in 0..4 {
        pokes.push((a + i, (v >> (8 * (3 - i))) as u8));
    }
}

pub fn run_mes(args: &Args) -> Result<()> {
    let tier = args.get("tier").unwrap_or("quick").to_string();
    let outdir = args.req("out")?.to_string();
    let seed = args.num("seed", 1);
    let adversarial = args.get("adversarial").is_some();
    std::fs::create_dir_all(&outdir)?;
    let thorough = tier == "thorough";
    let drv = if adversarial { "C15" } else { "C14" };
    let mut m = Machine::new(Bg::Tag);
    m.capture_console = Some(ConsoleCapture::install(std::path::Path::new(&format!("{}/console.bin", outdir)))?);
    let mut w = BufWriter::new(std::fs::File::create(format!("{}/mes.ndjson", outdir))?);
    let mut rng = Rng::new(seed ^ hash_str(drv), 99);
    let trapa0: [u16; 1] = [0x5700];
    let mut id = 0u64;
    let mut n_write = 0u64;
    let mut n_handler = 0u64;
    let mut emit = |m: &mut Machine, c: Case, w: &mut BufWriter<std::fs::File>, id: &mut u64| -> Result<()> {
        let out = exec_case(m, &c);
        writeln!(w, "{}", case_event(*id, &c, Bg::Tag, &out))?;
        *id += 1;
        Ok(())
    };
    let bufs = [0xffc800u32, 0x420000, 0xffbf20, 0x5fe000, 0x400000, 0xffef00];
    let blocks = [0xffd000u32, 0x430000, 0xfffe00, 0x5ffff0 - 12];
    let pcs = [0xffc000u32, 0x400100, 0x41a000];
    if !adversarial {
        // ---- write
        let mut lens: Vec<usize> = vec![0, 1, 2, 3, 4, 5, 7, 8, 15, 16, 31, 63, 64, 65, 127, 255, 256, 257, 1000, 1023, 1024, 2048, 4095, 4096];
        let extra = if thorough { 400 } else { 60 };
        for _ in 0..extra {
            let top = if rng.chance(1, 4) { 4097 } else { 200 };
            lens.push(rng.below(top));
        }
        let reps = if thorough { 6 } else { 2 };
        for (li, &len) in lens.iter().enumerate() {
            for r in 0..reps {
                let buf = bufs[(li + r) % bufs.len()] + (rng.below(16) as u32);
                let blk = blocks[(li * 3 + r) % blocks.len()];
                let bytes = utf8_bytes(len, &mut rng);
                let mut regs = benign_regs(&mut rng);
                regs.er[0] = 104;
                regs.er[1] = blk;
                let mut pokes: Vec<(u32, u8)> = Vec::new();
                put32(&mut pokes, blk, rng.below(3) as u32); // fd
                put32(&mut pokes, blk + 4, buf);
                put32(&mut pokes, blk + 8, len as u32);
                for (i, b) in bytes.iter().enumerate() {
                    pokes.push((buf + i as u32, *b));
                }
                let b = BUS_INIT;
                pokes.extend_from_slice(&[(ABWCR, b[0]), (ASTCR, b[1]), (WCRH, b[2]), (WCRL, b[3]), (DRCRA, b[4])]);
                let pc = pcs[(li + r) % pcs.len()];
                emit(&mut m, case_from_words(drv, "TRAPA #0 write", &trapa0, regs, pc, &pokes), &mut w, &mut id)?;
                n_write += 1;
            }
        }
        // ---- set_handler: all vector numbers 0..255 (+ a few large ones) x handler addresses
        let mut vecs: Vec<u32> = (0..256).collect();
        vecs.extend_from_slice(&[256, 0x10001, 0xffffffff, 0x80000001, 64, 63, 1]);
        for (vi, &v) in vecs.iter().enumerate() {
            for r in 0..(if thorough { 4 } else { 2 }) {
                let blk = blocks[(vi + r) % blocks.len()];
                let addr = match (vi + r) % 5 {
                    0 => 0x416900 + (rng.u32() & 0xfffe),
                    1 => 0xffc000 + (rng.u32() & 0x1ffe),
                    2 => rng.u32() & 0xfffffe,
                    3 => 0x000000,
                    _ => 0xfffffe,
                };
                let mut regs = benign_regs(&mut rng);
                regs.er[0] = 113;
                regs.er[1] = blk;
                let mut pokes: Vec<(u32, u8)> = Vec::new();
                put32(&mut pokes, blk, v);
                put32(&mut pokes, blk + 4, addr);
                let b = BUS_INIT;
                pokes.extend_from_slice(&[(ABWCR, b[0]), (ASTCR, b[1]), (WCRH, b[2]), (WCRL, b[3]), (DRCRA, b[4])]);
                emit(&mut m, case_from_words(drv, "TRAPA #0 set_handler", &trapa0, regs, pcs[vi % pcs.len()], &pokes), &mut w, &mut id)?;
                n_handler += 1;
            }
        }
        // ---- other call numbers
        let mut ids: Vec<u32> = (0..256).collect();
        ids.extend_from_slice(&[0x10068, 0xffff0071, 0x68000000, 0x00006800, 0x00007100, 0xffffffff, 0x80000068]);
        for _ in 0..(if thorough { 500 } else { 60 }) {
            ids.push(rng.u32());
        }
        for (k, &cid) in ids.iter().enumerate() {
            if cid == 104 || cid == 113 {
                continue;
            }
            let mut regs = benign_regs(&mut rng);
            regs.er[0] = cid;
            regs.er[1] = blocks[k % blocks.len()];
            let b = BUS_INIT;
            let pokes = vec![(ABWCR, b[0]), (ASTCR, b[1]), (WCRH, b[2]), (WCRL, b[3]), (DRCRA, b[4])];
            emit(&mut m, case_from_words(drv, "TRAPA #0 other", &trapa0, regs, pcs[k % pcs.len()], &pokes), &mut w, &mut id)?;
        }
    } else {
        // ---- hostile argument blocks (C15)
        let adv: [u32; 16] = [0, 1, 3, 0xffffffff, 0xfffffffe, 0x00ffffff, 0x01000000, 0x00ffffe9, 0x00ffffe6, 0x005ffffc, 0x00400000, 0x000000fc, 0xa6000000, 0xa5ffffff, 0x7fffffff, 0x80000000];
        let n = if thorough { 6000 } else { 1200 };
        for k in 0..n {
            let mut regs = benign_regs(&mut rng);
            regs.er[0] = if k % 2 == 0 { 104 } else { 113 };
            let good_blk = blocks[k % blocks.len()];
            regs.er[1] = if k % 3 == 0 { adv[(k / 3) % adv.len()] } else { good_blk };
            regs.er[5] = rng.pick(&adv);
            let mut pokes: Vec<(u32, u8)> = Vec::new();
            let a0 = if rng.chance(1, 2) { rng.pick(&adv) } else { rng.below(70) as u32 };
            let a1 = if rng.chance(2, 3) { rng.pick(&adv).wrapping_add(rng.below(5) as u32).wrapping_sub(2) } else { bufs[k % bufs.len()] };
            let a2 = match rng.below(5) {
                0 => rng.pick(&adv),
                1 => 0x2000,
                2 => 0x10000,
                _ => rng.below(40) as u32,
            };
            put32(&mut pokes, good_blk, a0);
            put32(&mut pokes, good_blk + 4, a1);
            put32(&mut pokes, good_blk + 8, a2);
            // invalid UTF-8 in the buffer now and then
            if rng.chance(1, 3) {
                for i in 0..8 {
                    pokes.push((bufs[k % bufs.len()] + i, [0xff, 0xc0, 0x80, 0xed, 0xa0, 0x80, 0xf5, 0xfe][i as usize]));
                }
            }
            let b = BUS_INIT;
            pokes.extend_from_slice(&[(ABWCR, b[0]), (ASTCR, b[1]), (WCRH, b[2]), (WCRL, b[3]), (DRCRA, b[4])]);
            emit(&mut m, case_from_words(drv, "TRAPA #0 hostile", &trapa0, regs, pcs[k % pcs.len()], &pokes), &mut w, &mut id)?;
        }
    }
    w.flush()?;
    eprintln!("{{\"driver\":\"mes-cases\",\"events\":{},\"write_calls\":{},\"set_handler_calls\":{},\"adversarial\":{}}}", id, n_write, n_handler, adversarial);
    Ok(())
}
