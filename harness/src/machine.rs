//! Wrapper around the real `Cpu`: background fill, explicit pokes, single step under
//! catch_unwind, whole-memory diff against the pre-image, restore.
//!
//! No expected values are computed here: this module only prepares inputs, calls the
//! emulator and projects its state.
use emu::cpu::{verif_hooks, Cpu};
use std::cell::RefCell;
use std::panic::{catch_unwind, AssertUnwindSafe};

pub const VEC_LO: u32 = 0x000000;
pub const VEC_HI: u32 = 0x0000ff;
pub const DRAM_LO: u32 = 0x400000;
pub const DRAM_HI: u32 = 0x5fffff;
pub const IO1_LO: u32 = 0xfee000;
pub const IO1_HI: u32 = 0xfee0ff;
pub const RAM_LO: u32 = 0xffbf20;
pub const RAM_HI: u32 = 0xffff1f;
pub const IO2_LO: u32 = 0xffff20;
pub const IO2_HI: u32 = 0xffffe9;

pub const ABWCR: u32 = 0xfee020;
pub const ASTCR: u32 = 0xfee021;
pub const WCRH: u32 = 0xfee022;
pub const WCRL: u32 = 0xfee023;
pub const DRCRA: u32 = 0xfee026;

#[derive(Clone, Copy, PartialEq, Eq, Debug)]
pub enum Bg {
    Zero,
    Tag,
}
impl Bg {
    pub fn name(self) -> &'static str {
        match self {
            Bg::Zero => "zero",
            Bg::Tag => "tag",
        }
    }
}

/// Address hash used as memory background (same function as `Tag` in H8Map.tla).
pub fn tag(a: u32) -> u8 {
    (((a & 0xff) * 167 + ((a >> 8) & 0xff) * 13 + (a >> 16) * 7 + 90) & 0xff) as u8
}

thread_local! {
    static LAST_PANIC: RefCell<Option<String>> = RefCell::new(None);
}

pub fn install_quiet_panic_hook() {
    std::panic::set_hook(Box::new(|info| {
        let loc = info.location().map(|l| l.file().to_string()).unwrap_or_default();
        let msg = if let Some(s) = info.payload().downcast_ref::<&str>() {
            s.to_string()
        } else if let Some(s) = info.payload().downcast_ref::<String>() {
            s.clone()
        } else {
            "panic".to_string()
        };
        LAST_PANIC.with(|p| *p.borrow_mut() = Some(format!("{}: {}", loc, msg)));
    }));
}

pub fn take_panic() -> Option<String> {
    LAST_PANIC.with(|p| p.borrow_mut().take())
}

#[derive(Clone, Debug, Default)]
pub struct Regs {
    pub er: [u32; 8],
    pub ccr: u8,
    pub pc: u32,
}

impl Regs {
    /// <<e0, r0, ..., e7, r7, ccr, pc_hi16, pc_lo16>>
    pub fn vec19(&self) -> Vec<u32> {
        let mut v = Vec::with_capacity(19);
        for i in 0..8 {
            v.push(self.er[i] >> 16);
            v.push(self.er[i] & 0xffff);
        }
        v.push(self.ccr as u32);
        v.push(self.pc >> 16);
        v.push(self.pc & 0xffff);
        v
    }
}

#[derive(Clone, Debug)]
pub struct StepOut {
    pub res: &'static str, // "ok" | "err" | "panic"
    pub st: u32,
    pub post: Regs,
    pub wr: Vec<(u32, u8)>,
    pub msgs: Vec<Vec<u8>>,
    pub con: Vec<u8>,
    pub note: String, // error / panic text (never compared)
}

pub struct Machine {
    pub cpu: Cpu,
    pub bg: Bg,
    // pre-image (background + pokes) of the five backing stores
    sh_vec: Vec<u8>,
    sh_dram: Vec<u8>,
    sh_io1: Vec<u8>,
    sh_ram: Vec<u8>,
    sh_io2: Vec<u8>,
    poked: Vec<u32>,
    pub capture_console: Option<ConsoleCapture>,
}

pub struct ConsoleCapture {
    file: std::fs::File,
    pos: u64,
}

/// process-wide console capture for single-threaded run-loop drivers
pub static CONSOLE: std::sync::Mutex<Option<ConsoleCapture>> = std::sync::Mutex::new(None);
pub fn console_take() -> Vec<u8> {
    match CONSOLE.lock().unwrap().as_mut() {
        Some(c) => c.take_new(),
        None => Vec::new(),
    }
}

impl ConsoleCapture {
    /// Redirect fd 1 of the whole process to a scratch file (single-threaded drivers only).
    pub fn install(path: &std::path::Path) -> anyhow::Result<Self> {
        use std::os::unix::io::AsRawFd;
        let file = std::fs::OpenOptions::new().create(true).read(true).write(true).truncate(true).open(path)?;
        unsafe {
            if libc::dup2(file.as_raw_fd(), 1) < 0 {
                anyhow::bail!("dup2 failed");
            }
        }
        Ok(ConsoleCapture { file, pos: 0 })
    }
    /// bytes written to fd 1 since the previous call
    pub fn take_new(&mut self) -> Vec<u8> {
        let p = self.pos;
        let v = self.since(p);
        self.pos += v.len() as u64;
        v
    }
    fn mark(&mut self) -> u64 {
        use std::io::{Seek, SeekFrom, Write};
        let _ = std::io::stdout().flush();
        self.file.seek(SeekFrom::End(0)).unwrap_or(0)
    }
    fn since(&mut self, mark: u64) -> Vec<u8> {
        use std::io::{Read, Seek, SeekFrom, Write};
        let _ = std::io::stdout().flush();
        let mut v = Vec::new();
        if self.file.seek(SeekFrom::Start(mark)).is_ok() {
            let _ = self.file.read_to_end(&mut v);
        }
        v
    }
}

fn bg_val(bg: Bg, a: u32) -> u8 {
    let io = (IO1_LO..=IO1_HI).contains(&a) || (IO2_LO..=IO2_HI).contains(&a);
    if bg == Bg::Tag && !io {
        tag(a)
    } else {
        0
    }
}

impl Machine {
    pub fn new(bg: Bg) -> Self {
        *emu::setting::ENABLE_PRINT_OPCODE.write().unwrap() = false;
        *emu::setting::ENABLE_PRINT_MESSAGES.write().unwrap() = false;
        let mut cpu = Cpu::new();
        let fill = |lo: u32, n: usize| -> Vec<u8> { (0..n).map(|i| bg_val(bg, lo + i as u32)).collect() };
        let sh_vec = fill(VEC_LO, 256);
        let sh_dram = fill(DRAM_LO, (DRAM_HI - DRAM_LO + 1) as usize);
        let sh_io1 = fill(IO1_LO, 256);
        let sh_ram = fill(RAM_LO, (RAM_HI - RAM_LO + 1) as usize);
        let sh_io2 = fill(IO2_LO, (IO2_HI - IO2_LO + 1) as usize);
        cpu.bus.exception_handling_vector.copy_from_slice(&sh_vec);
        cpu.bus.dram.copy_from_slice(&sh_dram);
        cpu.bus.io_registrs1.copy_from_slice(&sh_io1);
        cpu.bus.memory.copy_from_slice(&sh_ram);
        cpu.bus.io_registrs2.copy_from_slice(&sh_io2);
        verif_hooks::sink_install();
        Machine { cpu, bg, sh_vec, sh_dram, sh_io1, sh_ram, sh_io2, poked: Vec::new(), capture_console: None }
    }

    /// (store index, offset) of a guest address in the emulator's backing arrays.
    pub fn locate(a: u32) -> Option<(u8, usize)> {
        if a <= VEC_HI {
            Some((0, a as usize))
        } else if (DRAM_LO..=DRAM_HI).contains(&a) {
            Some((1, (a - DRAM_LO) as usize))
        } else if (IO1_LO..=IO1_HI).contains(&a) {
            Some((2, (a - IO1_LO) as usize))
        } else if (RAM_LO..=RAM_HI).contains(&a) {
            Some((3, (a - RAM_LO) as usize))
        } else if (IO2_LO..=IO2_HI).contains(&a) {
            Some((4, (a - IO2_LO) as usize))
        } else {
            None
        }
    }
    pub fn mapped(a: u32) -> bool {
        Self::locate(a).is_some()
    }

    fn cell(&mut self, s: u8, o: usize) -> &mut u8 {
        match s {
            0 => &mut self.cpu.bus.exception_handling_vector[o],
            1 => &mut self.cpu.bus.dram[o],
            2 => &mut self.cpu.bus.io_registrs1[o],
            3 => &mut self.cpu.bus.memory[o],
            _ => &mut self.cpu.bus.io_registrs2[o],
        }
    }
    fn shadow(&mut self, s: u8, o: usize) -> &mut u8 {
        match s {
            0 => &mut self.sh_vec[o],
            1 => &mut self.sh_dram[o],
            2 => &mut self.sh_io1[o],
            3 => &mut self.sh_ram[o],
            _ => &mut self.sh_io2[o],
        }
    }

    /// Direct store into the backing arrays (no bus side effects); recorded in the pre-image.
    pub fn poke(&mut self, a: u32, b: u8) -> bool {
        if let Some((s, o)) = Self::locate(a) {
            *self.cell(s, o) = b;
            *self.shadow(s, o) = b;
            self.poked.push(a);
            true
        } else {
            false
        }
    }
    pub fn peek(&self, a: u32) -> Option<u8> {
        Self::locate(a).map(|(s, o)| match s {
            0 => self.cpu.bus.exception_handling_vector[o],
            1 => self.cpu.bus.dram[o],
            2 => self.cpu.bus.io_registrs1[o],
            3 => self.cpu.bus.memory[o],
            _ => self.cpu.bus.io_registrs2[o],
        })
    }

    pub fn set_regs(&mut self, r: &Regs) {
        self.cpu.er = r.er;
        self.cpu.vh_set_ccr(r.ccr);
        self.cpu.vh_set_pc(r.pc);
    }
    pub fn get_regs(&self) -> Regs {
        Regs { er: self.cpu.er, ccr: self.cpu.vh_ccr(), pc: self.cpu.vh_pc() }
    }

    /// All bytes of the five backing stores that differ from the pre-image, ascending.
    pub fn diff(&self) -> Vec<(u32, u8)> {
        let mut out = Vec::new();
        let mut cmp = |lo: u32, cur: &[u8], sh: &[u8]| {
            if cur == sh {
                return;
            }
            for (ci, (c, s)) in cur.chunks(4096).zip(sh.chunks(4096)).enumerate() {
                if c != s {
                    for i in 0..c.len() {
                        if c[i] != s[i] {
                            out.push((lo + (ci * 4096 + i) as u32, c[i]));
                        }
                    }
                }
            }
        };
        cmp(VEC_LO, &self.cpu.bus.exception_handling_vector, &self.sh_vec);
        cmp(DRAM_LO, &self.cpu.bus.dram, &self.sh_dram);
        cmp(IO1_LO, &self.cpu.bus.io_registrs1, &self.sh_io1);
        cmp(RAM_LO, &self.cpu.bus.memory[..], &self.sh_ram);
        cmp(IO2_LO, &self.cpu.bus.io_registrs2, &self.sh_io2);
        out
    }

    /// Make the pre-image equal to the current memory (threaded runs: the diff of the next step is
    /// relative to the state after this one).
    pub fn commit(&mut self, wr: &[(u32, u8)]) {
        for &(a, b) in wr {
            if let Some((s, o)) = Self::locate(a) {
                *self.shadow(s, o) = b;
                self.poked.push(a);
            }
        }
    }

    /// Undo pokes and writes: memory and pre-image are the pure background again.
    pub fn restore(&mut self, wr: &[(u32, u8)]) {
        let bg = self.bg;
        let poked = std::mem::take(&mut self.poked);
        for a in poked.into_iter().chain(wr.iter().map(|p| p.0)) {
            if let Some((s, o)) = Self::locate(a) {
                let v = bg_val(bg, a);
                *self.cell(s, o) = v;
                *self.shadow(s, o) = v;
            }
        }
        self.cpu.bus.io_port_in.iter_mut().for_each(|x| *x = 0); // whatever its length
        self.cpu.vh_set_state_sum(0);
        self.cpu.vh_clear_pending();
        self.cpu.vh_reset_modules();
    }

    fn observe<F: FnOnce(&mut Cpu) -> anyhow::Result<u32>>(&mut self, f: F) -> StepOut {
        let _ = verif_hooks::sink_take();
        let _ = take_panic();
        let mark = self.capture_console.as_mut().map(|c| c.mark());
        let r = catch_unwind(AssertUnwindSafe(|| f(&mut self.cpu)));
        let con = match (mark, self.capture_console.as_mut()) {
            (Some(m), Some(c)) => c.since(m),
            _ => Vec::new(),
        };
        let msgs: Vec<Vec<u8>> = verif_hooks::sink_take().into_iter().map(|s| s.into_bytes()).collect();
        let (res, st, note) = match r {
            Ok(Ok(st)) => ("ok", st, String::new()),
            Ok(Err(e)) => ("err", 0, format!("{:#}", e)),
            Err(_) => ("panic", 0, take_panic().unwrap_or_default()),
        };
        let post = self.get_regs();
        let wr = self.diff();
        StepOut { res, st, post, wr, msgs, con, note }
    }

    /// One instruction exactly as the run loop executes it (fetch + exec).
    pub fn step(&mut self) -> StepOut {
        self.observe(|cpu| cpu.vh_step().map(|s| s as u32))
    }
    /// What the run loop does at an instruction boundary with the pending-interrupt queue.
    pub fn try_interrupt(&mut self) -> StepOut {
        self.observe(|cpu| cpu.vh_try_interrupt().map(|_| 0))
    }
    pub fn interrupt(&mut self, v: u8) -> StepOut {
        self.observe(|cpu| cpu.vh_interrupt(v).map(|_| 0))
    }
    pub fn bus_write(&mut self, a: u32, v: u8) -> StepOut {
        self.observe(|cpu| cpu.bus.write(a, v).map(|_| 0))
    }
    pub fn ext_in(&mut self, port: u8, v: u8) -> StepOut {
        self.observe(|cpu| {
            cpu.bus.write_port(port, v);
            Ok(0)
        })
    }
    pub fn update_modules(&mut self, n: u8) -> StepOut {
        self.observe(|cpu| cpu.vh_update_modules(n).map(|_| 0))
    }
}

// ---- JSON helpers (hand-written for speed; everything is ints and short strings) ----
pub fn j_u32s(v: &[u32]) -> String {
    let mut s = String::with_capacity(v.len() * 6 + 2);
    s.push('[');
    for (i, x) in v.iter().enumerate() {
        if i > 0 {
            s.push(',');
        }
        s.push_str(&x.to_string());
    }
    s.push(']');
    s
}
pub fn j_bytes(v: &[u8]) -> String {
    let mut s = String::with_capacity(v.len() * 4 + 2);
    s.push('[');
    for (i, x) in v.iter().enumerate() {
        if i > 0 {
            s.push(',');
        }
        s.push_str(&x.to_string());
    }
    s.push(']');
    s
}
pub fn j_pairs(v: &[(u32, u8)]) -> String {
    let mut s = String::with_capacity(v.len() * 14 + 2);
    s.push('[');
    for (i, (a, b)) in v.iter().enumerate() {
        if i > 0 {
            s.push(',');
        }
        s.push_str(&format!("[{},{}]", a, b));
    }
    s.push(']');
    s
}
/// explicit pokes as disjoint contiguous runs [[start,[b0,b1,..]],..]; later pokes win
pub fn j_runs(pokes: &[(u32, u8)]) -> String {
    let mut m: std::collections::BTreeMap<u32, u8> = std::collections::BTreeMap::new();
    for &(a, b) in pokes {
        m.insert(a, b);
    }
    let mut s = String::from("[");
    let mut first = true;
    let mut cur: Option<(u32, Vec<u8>)> = None;
    let mut flush = |cur: &mut Option<(u32, Vec<u8>)>, s: &mut String, first: &mut bool| {
        if let Some((st, bytes)) = cur.take() {
            if !*first {
                s.push(',');
            }
            *first = false;
            s.push_str(&format!("[{},{}]", st, j_bytes(&bytes)));
        }
    };
    for (&a, &b) in m.iter() {
        match &mut cur {
            Some((st, bytes)) if *st + bytes.len() as u32 == a => bytes.push(b),
            _ => {
                flush(&mut cur, &mut s, &mut first);
                cur = Some((a, vec![b]));
            }
        }
    }
    flush(&mut cur, &mut s, &mut first);
    s.push(']');
    s
}
pub fn j_msgs(v: &[Vec<u8>]) -> String {
    let mut s = String::from("[");
    for (i, m) in v.iter().enumerate() {
        if i > 0 {
            s.push(',');
        }
        s.push_str(&j_bytes(m));
    }
    s.push(']');
    s
}
pub fn j_str(s: &str) -> String {
    serde_json::to_string(s).unwrap()
}
