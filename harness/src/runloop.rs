//! The real `Cpu::run` in-process (C13, C18; system scenario C14->C17->C10->C06->C16):
//! guest programs are laid out as ELF files by the writer of elfgen.rs, loaded with the real
//! elf::load and executed by the real run loop with a channel-backed control socket.  The hooks
//! on_poll / on_polled / on_iteration (cfg koge29_verif) give one event per poll with lines and one
//! per iteration; batching of control lines is decided by the schedule, not by thread timing.
use crate::asm::Asm;
use crate::elfgen::{write_elf, ElfDesc, Ph, Sh};
use crate::machine::*;
use crate::rng::{hash_str, Rng};
use crate::Args;
use anyhow::{anyhow, Result};
use emu::cpu::{verif_hooks, Cpu};
use emu::socket::Socket;
use std::cell::RefCell;
use std::io::{BufWriter, Write};
use std::rc::Rc;
use std::sync::mpsc;

pub const BASE: u32 = 0x416900;

pub struct Program {
    pub name: String,
    pub image: Vec<u8>, // loaded at BASE
    pub exit_off: u32,
    pub args: String,
}

struct Shadow {
    vec: Vec<u8>,
    dram: Vec<u8>,
    io1: Vec<u8>,
    ram: Vec<u8>,
    io2: Vec<u8>,
}
impl Shadow {
    fn of(cpu: &Cpu) -> Self {
        Shadow {
            vec: cpu.bus.exception_handling_vector.to_vec(),
            dram: cpu.bus.dram.to_vec(),
            io1: cpu.bus.io_registrs1.to_vec(),
            ram: cpu.bus.memory.to_vec(),
            io2: cpu.bus.io_registrs2.to_vec(),
        }
    }
    /// bytes that differ from the last call (and remember the new contents)
    fn diff(&mut self, cpu: &Cpu) -> Vec<(u32, u8)> {
        let mut out = Vec::new();
        let mut cmp = |lo: u32, cur: &[u8], sh: &mut Vec<u8>| {
            if cur == &sh[..] {
                return;
            }
            for ci in 0..((cur.len() + 4095) / 4096) {
                let a = ci * 4096;
                let b = (a + 4096).min(cur.len());
                if cur[a..b] != sh[a..b] {
                    for i in a..b {
                        if cur[i] != sh[i] {
                            out.push((lo + i as u32, cur[i]));
                            sh[i] = cur[i];
                        }
                    }
                }
            }
        };
        cmp(VEC_LO, &cpu.bus.exception_handling_vector, &mut self.vec);
        cmp(DRAM_LO, &cpu.bus.dram, &mut self.dram);
        cmp(IO1_LO, &cpu.bus.io_registrs1, &mut self.io1);
        cmp(RAM_LO, &cpu.bus.memory[..], &mut self.ram);
        cmp(IO2_LO, &cpu.bus.io_registrs2, &mut self.io2);
        out
    }
    /// every non-zero byte; zero bytes in gaps of up to 512 bytes between two non-zero bytes of one region are
    /// listed too, so that an image becomes a few long runs (the specification looks addresses up run by run)
    fn nonzero_pokes(&self) -> Vec<(u32, u8)> {
        let mut v = Vec::new();
        let mut add = |lo: u32, s: &Vec<u8>| {
            let mut last: Option<usize> = None;
            for (i, b) in s.iter().enumerate() {
                if *b != 0 {
                    if let Some(l) = last {
                        if i - l <= 512 {
                            for j in l + 1..i {
                                v.push((lo + j as u32, 0));
                            }
                        }
                    }
                    v.push((lo + i as u32, *b));
                    last = Some(i);
                }
            }
        };
        add(VEC_LO, &self.vec);
        add(DRAM_LO, &self.dram);
        add(IO1_LO, &self.io1);
        add(RAM_LO, &self.ram);
        add(IO2_LO, &self.io2);
        v
    }
}

fn regs_of(cpu: &Cpu) -> Regs {
    Regs { er: cpu.er, ccr: cpu.vh_ccr(), pc: cpu.vh_pc() }
}
fn sum_pair(s: usize) -> String {
    format!("[{},{}]", s / 1_000_000, s % 1_000_000)
}
fn readbacks(cpu: &Cpu) -> (Vec<u8>, Vec<u8>) {
    ((0..11).map(|i| cpu.bus.read(0xfee000 + i).unwrap_or(0)).collect(), (0..11).map(|i| cpu.bus.read(0xffffd0 + i).unwrap_or(0)).collect())
}

struct Log {
    em_n: u64, // messages seen at the emission hook since the socket was attached (count, order-sensitive hash)
    em_h: u64,
    w: Option<BufWriter<std::fs::File>>, // None = do not log events (summary only)
    id: u64,
    shadow: Option<Shadow>,
    schedule: Vec<Vec<String>>, // lines to enqueue at poll number i
    poll_no: usize,
    batch: Vec<String>,
    in_tx: mpsc::Sender<String>,
    iters: u64,
    max_iters: u64,
    stop_sent: bool,
    exit_addr: u32,
    // summary for the determinism comparison
    h_pcst: u64,
    h_msgs: u64,
    n_msgs: u64,
    extra_polls_after_schedule: usize,
    log_every_poll: bool,
    sums: Vec<u32>, // state_sum after every iteration (silent tuning runs only; below 2^32)
    lite: bool, // long runs: no whole-memory diff, periodic `snap` events so that the trace can be validated in shards
    pend_at_exit: bool,
    iter_sched: std::collections::VecDeque<(u64, Vec<String>)>, // re-driven runs: (iterations executed before the poll, lines)
    stall_at: u64,
    stall: u64,
    redriven: bool,
    snap_every: u64, // full-mode runs: a `snap` event with the WHOLE memory every n iterations (0 = never)
}
fn mix(h: u64, x: u64) -> u64 {
    (h ^ x).wrapping_mul(0x100000001b3).rotate_left(13)
}
fn j_lines(v: &[String]) -> String {
    let mut s = String::from("[");
    for (i, l) in v.iter().enumerate() {
        if i > 0 {
            s.push(',');
        }
        s.push_str(&j_bytes(l.as_bytes()));
    }
    s.push(']');
    s
}

impl Log {
    /// everything the emission hook has seen since the last call (also folded into the whole-run emission digest)
    fn take_msgs(&mut self) -> Vec<Vec<u8>> {
        let msgs: Vec<Vec<u8>> = verif_hooks::sink_take().into_iter().map(|s| s.into_bytes()).collect();
        for m in &msgs {
            self.em_h = mix(self.em_h, hash_bytes(m));
            self.em_n += 1;
        }
        msgs
    }
    fn emit(&mut self, line: String) {
        if let Some(w) = self.w.as_mut() {
            let _ = writeln!(w, "{}", line);
        }
        self.id += 1;
    }
    fn on_poll(&mut self, cpu: &mut Cpu) {
        if self.shadow.is_none() {
            // first poll: run() has set pc and programmed the bus controller - this is the initial state
            let sh = Shadow::of(cpu);
            let pokes = sh.nonzero_pokes();
            let regs = regs_of(cpu);
            let line = format!("{{\"k\":\"load\",\"id\":{},\"bg\":\"zero\",\"pre\":{},\"pk\":{},\"pend\":[],\"exit\":[{},{}]}}",
                               self.id, j_u32s(&regs.vec19()), j_runs(&pokes), self.exit_addr >> 16, self.exit_addr & 0xffff);
            self.emit(line);
            self.shadow = Some(sh);
            let _ = self.take_msgs();
        }
        let mut batch: Vec<String> = if self.poll_no < self.schedule.len() { self.schedule[self.poll_no].clone() } else { Vec::new() };
        // re-driven runs: a batch is due after the recorded number of iterations - or, when the run makes no
        // progress (paused), at the next poll: the recorded polls then followed one another without iterations
        if self.iters == self.stall_at {
            self.stall += 1;
        } else {
            self.stall_at = self.iters;
            self.stall = 0;
        }
        if self.iter_sched.front().map(|f| f.0 <= self.iters || self.stall >= 2).unwrap_or(false) {
            batch = self.iter_sched.pop_front().map(|f| f.1).unwrap_or_default();
        } else if self.redriven && self.iter_sched.is_empty() && self.stall > 2000 && !self.stop_sent {
            batch.push("cmd:stop".to_string()); // paused for good: end the run
            self.stop_sent = true;
        }
        if !self.stop_sent && (self.iters >= self.max_iters || self.poll_no >= self.schedule.len() + self.extra_polls_after_schedule && self.extra_polls_after_schedule > 0) {
            batch.push("cmd:stop".to_string());
            self.stop_sent = true;
        }
        for l in &batch {
            let _ = self.in_tx.send(l.clone());
        }
        self.batch = batch;
        self.poll_no += 1;
    }
    fn on_polled(&mut self, cpu: &mut Cpu) {
        if self.batch.is_empty() && !self.log_every_poll {
            return;
        }
        let msgs: Vec<Vec<u8>> = self.take_msgs();
        for m in &msgs {
            self.h_msgs = mix(self.h_msgs, hash_bytes(m));
            self.n_msgs += 1;
        }
        let wr = self.shadow.as_mut().map(|s| s.diff(cpu)).unwrap_or_default();
        let (dd, dr) = readbacks(cpu);
        let line = format!("{{\"k\":\"poll\",\"id\":{},\"lines\":{},\"msgs\":{},\"wr\":{},\"dd\":{},\"dr\":{},\"sum\":{}}}",
                           self.id, j_lines(&self.batch), j_msgs(&msgs), j_pairs(&wr), j_bytes(&dd), j_bytes(&dr), sum_pair(cpu.vh_state_sum()));
        self.emit(line);
        self.batch.clear();
    }
    fn on_iteration(&mut self, cpu: &mut Cpu, pc_before: u32, opcode: u16, state: u32) {
        self.iters += 1;
        if cpu.vh_pc() == self.exit_addr && !cpu.vh_pending().is_empty() {
            self.pend_at_exit = true; // sticky: what the run does afterwards must not undo the selection
        }
        if cpu.vh_pending().len() > 64 {
            // a guest program that is interrupted faster than it can return is a driver mistake: stop it
            self.iters = self.max_iters;
        }
        let msgs: Vec<Vec<u8>> = self.take_msgs();
        for m in &msgs {
            self.h_msgs = mix(self.h_msgs, hash_bytes(m));
            self.n_msgs += 1;
        }
        self.h_pcst = mix(mix(self.h_pcst, pc_before as u64), state as u64 ^ ((cpu.vh_pc() as u64) << 20));
        if self.w.is_none() {
            let _ = console_take();
            self.sums.push(cpu.vh_state_sum() as u32);
            self.id += 1;
            return;
        }
        let wr = if self.lite { Vec::new() } else { self.shadow.as_mut().map(|s| s.diff(cpu)).unwrap_or_default() };
        let (_dd, dr) = readbacks(cpu);
        let regs = regs_of(cpu);
        let con = console_take();
        let line = format!("{{\"k\":\"it\",\"id\":{},\"pcb\":[{},{}],\"op\":{},\"st\":{},\"sum\":{},\"post\":{},\"pend\":{},\"msgs\":{},\"con\":{},\"wr\":{},\"dr\":{},\"tcnt\":{},\"tcsr\":{}}}",
                           self.id, pc_before >> 16, pc_before & 0xffff, opcode, state, sum_pair(cpu.vh_state_sum()), j_u32s(&regs.vec19()), j_bytes(&cpu.vh_pending()),
                           j_msgs(&msgs), j_bytes(&con), j_pairs(&wr), j_bytes(&dr), cpu.bus.read(0xffff88).unwrap_or(0), cpu.bus.read(0xffff82).unwrap_or(0));
        self.emit(line);
        if !self.lite && self.snap_every > 0 && self.iters % self.snap_every == 0 {
            let pokes = self.shadow.as_ref().map(|s| s.nonzero_pokes()).unwrap_or_default();
            let line = format!("{{\"k\":\"snap\",\"id\":{},\"bg\":\"zero\",\"pre\":{},\"pk\":{},\"pend\":{},\"sum\":{},\"exit\":[{},{}]}}",
                               self.id, j_u32s(&regs.vec19()), j_runs(&pokes), j_bytes(&cpu.vh_pending()), sum_pair(cpu.vh_state_sum()), self.exit_addr >> 16, self.exit_addr & 0xffff);
            self.emit(line);
        }
        if self.lite && self.iters % 4000 == 0 {
            // lite snapshots carry the peripheral registers only (ports, timer): enough to resume their models
            let mut pk: Vec<(u32, u8)> = Vec::new();
            for i in 0..11u32 {
                pk.push((0xfee000 + i, cpu.bus.read(0xfee000 + i).unwrap_or(0)));
            }
            for i in 0..9u32 {
                pk.push((0xffff80 + i, cpu.bus.read(0xffff80 + i).unwrap_or(0)));
            }
            for i in 0..11u32 {
                pk.push((0xffffd0 + i, cpu.bus.read(0xffffd0 + i).unwrap_or(0)));
            }
            let line = format!("{{\"k\":\"snap\",\"id\":{},\"bg\":\"zero\",\"pre\":{},\"pk\":{},\"pend\":{},\"sum\":{},\"exit\":[{},{}]}}",
                               self.id, j_u32s(&regs.vec19()), j_runs(&pk), j_bytes(&cpu.vh_pending()), sum_pair(cpu.vh_state_sum()), self.exit_addr >> 16, self.exit_addr & 0xffff);
            self.emit(line);
        }
    }
}
fn hash_bytes(b: &[u8]) -> u64 {
    let mut h = 0xcbf29ce484222325u64;
    for x in b {
        h = (h ^ *x as u64).wrapping_mul(0x100000001b3);
    }
    h
}

pub struct RunSummary {
    pub sums: Vec<u32>,
    pub pend_at_exit: bool,
    pub res: &'static str,
    pub regs: Regs,
    pub sum: usize,
    pub iters: u64,
    pub h_pcst: u64,
    pub h_msgs: u64,
    pub n_msgs: u64,
    pub events: u64,
}
impl RunSummary {
    pub fn vec(&self) -> Vec<u32> {
        let mut v = self.regs.vec19();
        v.push((self.sum / 1_000_000) as u32);
        v.push((self.sum % 1_000_000) as u32);
        v.push(self.iters as u32);
        for h in [self.h_pcst, self.h_msgs, self.n_msgs] {
            v.push((h >> 48) as u32 & 0xffff);
            v.push((h >> 32) as u32 & 0xffff);
            v.push((h >> 16) as u32 & 0xffff);
            v.push(h as u32 & 0xffff);
        }
        v.push(match self.res {
            "ok" => 0,
            "err" => 1,
            _ => 2,
        });
        v
    }
}

/// Wrap a program image into an ELF file (one PT_LOAD at vaddr 0, .stack, .symtab with ___exit).
pub fn elf_of(p: &Program, rng: &mut Rng) -> Vec<u8> {
    let mut d = ElfDesc::default();
    d.ph = vec![Ph { ty: 1, off: 52 + 32 + 12, va: 0, pa: 0, fsz: p.image.len() as u32, msz: p.image.len() as u32 + 0x40 }];
    d.seg = vec![p.image.clone()];
    d.sh = vec![
        Sh { name: String::new(), ty: 0, addr: 0, off: 0, size: 0, link: 0, entsize: 0 },
        Sh { name: ".text".into(), ty: 1, addr: 0, off: 0x100, size: p.image.len() as u32, link: 0, entsize: 0 },
        Sh { name: ".stack".into(), ty: 8, addr: 0x400, off: 0, size: 0, link: 0, entsize: 0 },
        Sh { name: ".symtab".into(), ty: 2, addr: 0, off: 0, size: 0, link: 0, entsize: 16 },
        Sh { name: ".strtab".into(), ty: 3, addr: 0, off: 0, size: 0, link: 0, entsize: 0 },
        Sh { name: ".shstrtab".into(), ty: 3, addr: 0, off: 0, size: 0, link: 0, entsize: 0 },
    ];
    d.sym = vec![("_start".into(), 0), ("___exit".into(), p.exit_off)];
    write_elf(&mut d, rng)
}

/// Execute one program through elf::load + Cpu::run.  `log` = write events to this file.
pub fn run_program(p: &Program, elf_path: &str, log: Option<&str>, schedule: Vec<Vec<String>>, max_iters: u64, extra_polls: usize, rng: &mut Rng, first_id: u64) -> Result<RunSummary> {
    run_program_x(p, elf_path, log, schedule, max_iters, extra_polls, rng, first_id, false)
}
#[allow(clippy::too_many_arguments)]
pub fn run_program_x(p: &Program, elf_path: &str, log: Option<&str>, schedule: Vec<Vec<String>>, max_iters: u64, extra_polls: usize, rng: &mut Rng, first_id: u64, lite: bool) -> Result<RunSummary> {
    let file = elf_of(p, rng);
    std::fs::write(elf_path, &file)?;
    run_elf(elf_path, &p.args, log, schedule, max_iters, extra_polls, first_id, lite, 0)
}
/// Execute an ELF file through elf::load + Cpu::run.
#[allow(clippy::too_many_arguments)]
pub fn run_elf(elf_path: &str, prog_args: &str, log: Option<&str>, schedule: Vec<Vec<String>>, max_iters: u64, extra_polls: usize, first_id: u64, lite: bool, snap_every: u64) -> Result<RunSummary> {
    *emu::setting::ENABLE_PRINT_OPCODE.write().unwrap() = false;
    *emu::setting::ENABLE_PRINT_MESSAGES.write().unwrap() = false;
    *emu::setting::ENABLE_WAIT_START.write().unwrap() = false;
    let mut cpu = Cpu::new();
    emu::elf::load(elf_path.to_string(), &mut cpu, prog_args.to_string());
    run_cpu(cpu, log, schedule, Default::default(), max_iters, extra_polls, first_id, lite, snap_every)
}
/// Cpu::run on a prepared Cpu with the logging / line-injection hooks installed.
#[allow(clippy::too_many_arguments)]
pub fn run_cpu(mut cpu: Cpu, log: Option<&str>, schedule: Vec<Vec<String>>, iter_sched: std::collections::VecDeque<(u64, Vec<String>)>, max_iters: u64, extra_polls: usize, first_id: u64, lite: bool, snap_every: u64) -> Result<RunSummary> {
    let (out_tx, out_rx) = mpsc::channel::<String>();
    let (in_tx, in_rx) = mpsc::channel::<String>();
    cpu.vh_attach_socket(Socket::from_channels(out_tx, in_rx));
    verif_hooks::sink_install();
    let w = match log {
        Some(path) => Some(BufWriter::with_capacity(1 << 20, std::fs::OpenOptions::new().create(true).append(true).open(path)?)),
        None => None,
    };
    let lg = Rc::new(RefCell::new(Log {
        em_n: 0, em_h: 0, w, id: first_id, shadow: None, schedule, poll_no: 0, batch: Vec::new(), in_tx, iters: 0, max_iters, stop_sent: false, exit_addr: cpu.exit_addr,
        h_pcst: 0, h_msgs: 0, n_msgs: 0, extra_polls_after_schedule: extra_polls, log_every_poll: false, sums: Vec::new(), lite, pend_at_exit: false, snap_every, stall_at: u64::MAX, stall: 0, redriven: !iter_sched.is_empty(), iter_sched,
    }));
    let (l1, l2, l3) = (lg.clone(), lg.clone(), lg.clone());
    verif_hooks::set_on_poll(Some(Box::new(move |c: &mut Cpu| l1.borrow_mut().on_poll(c))));
    verif_hooks::set_on_polled(Some(Box::new(move |c: &mut Cpu| l2.borrow_mut().on_polled(c))));
    verif_hooks::set_on_iteration(Some(Box::new(move |c: &mut Cpu, pc, op, st| l3.borrow_mut().on_iteration(c, pc, op, st))));
    let _ = take_panic();
    let r = std::panic::catch_unwind(std::panic::AssertUnwindSafe(|| cpu.run()));
    verif_hooks::set_on_poll(None);
    verif_hooks::set_on_polled(None);
    verif_hooks::set_on_iteration(None);
    let res = match &r {
        Ok(Ok(())) => "ok",
        Ok(Err(_)) => "err",
        Err(_) => "panic",
    };
    let mut l = lg.borrow_mut();
    let msgs: Vec<Vec<u8>> = l.take_msgs();
    for m in &msgs {
        l.h_msgs = mix(l.h_msgs, hash_bytes(m));
        l.n_msgs += 1;
    }
    // what was handed to the transport (the socket's outgoing channel) over the whole run, against what the
    // emission hook saw: two observations, recorded side by side (count + order-sensitive digest, 16-bit pieces)
    let (mut tx_n, mut tx_h) = (0u64, 0u64);
    for m in out_rx.try_iter() {
        tx_h = mix(tx_h, hash_bytes(m.as_bytes()));
        tx_n += 1;
    }
    let q = |h: u64| [(h >> 48) as u32 & 0xffff, (h >> 32) as u32 & 0xffff, (h >> 16) as u32 & 0xffff, h as u32 & 0xffff];
    let txe: Vec<u32> = [vec![(l.em_n >> 16) as u32, l.em_n as u32 & 0xffff], q(l.em_h).to_vec(), vec![(tx_n >> 16) as u32, tx_n as u32 & 0xffff], q(tx_h).to_vec()].concat();
    let wr = l.shadow.as_mut().map(|s| s.diff(&cpu)).unwrap_or_default();
    let regs = regs_of(&cpu);
    let batch = l.batch.clone();
    let note = if res == "panic" { take_panic().unwrap_or_default() } else { String::new() };
    let line = format!("{{\"k\":\"ret\",\"id\":{},\"res\":\"{}\",\"lines\":{},\"msgs\":{},\"post\":{},\"wr\":{},\"sum\":{},\"txe\":{},\"note\":{}}}",
                       l.id, res, j_lines(&batch), j_msgs(&msgs), j_u32s(&regs.vec19()), j_pairs(&wr), sum_pair(cpu.vh_state_sum()), j_u32s(&txe), j_str(&note));
    l.emit(line);
    if let Some(w) = l.w.as_mut() {
        w.flush()?;
    }
    cpu.vh_detach_socket();
    let sums = std::mem::take(&mut l.sums);
    let pend_at_exit = l.pend_at_exit;
    Ok(RunSummary { sums, pend_at_exit, res, regs, sum: cpu.vh_state_sum(), iters: l.iters, h_pcst: l.h_pcst, h_msgs: l.h_msgs, n_msgs: l.n_msgs, events: l.id })
}

// ------------------------------------------------------------------------------------------------
// guest programs
// ------------------------------------------------------------------------------------------------
fn finish(name: &str, a: Asm, args: &str) -> Program {
    let (org, bytes, labels) = a.finish();
    assert_eq!(org, BASE);
    Program { name: name.to_string(), image: bytes, exit_off: labels["exit"] - BASE, args: args.to_string() }
}
fn epilogue(a: &mut Asm) {
    a.jmp_abs("exit");
    a.label("exit");
    a.bcc8(0, "exit");
}

/// counted loop(s) heavy in internal states: total state count ~ loops * 156 * 3 ... tuned by `n`
pub fn prog_count(n: u32, pad: u32) -> Program {
    let mut a = Asm::new(BASE);
    a.mov_l_imm(0, 0);
    a.mov_l_imm(1, 0x12345);
    a.mov_l_imm(6, n);
    for _ in 0..pad {
        a.mov_b_rr(8, 8); // shifts the phase of all later totals by 24 states each
    }
    a.label("loop");
    a.mov_w_imm(2, 0x1234);
    a.mulxu_w(1, 2); // ER2 = R2 * R1
    a.add_l_rr(2, 0);
    a.dec_l1(6);
    a.bcc8(6, "loop");
    epilogue(&mut a);
    finish("count", a, "")
}

/// port set-up, loop writing a port, write system calls with awkward bytes, calls
pub fn prog_io(iter: u16, text: &[u8], args: &str) -> Program {
    let mut a = Asm::new(BASE);
    a.mov_b_imm(8, 0xff);
    a.mov_b_store_abs24(8, 0xfee00a); // PBDDR = FF
    a.mov_b_store_abs24(8, 0xfee000); // P1DDR = FF
    a.mov_w_imm(6, iter);
    a.mov_b_imm(9, 1);
    a.label("loop");
    a.mov_b_store_abs24(9, 0xffffda); // PBDR
    a.rotl_b(9);
    a.bsr16("sub");
    a.dec_w1(6);
    a.bcc8(6, "loop");
    // write(1, text, len)
    a.mov_l_imm(0, 104);
    a.mov_l_label(1, "blk");
    a.trapa(0);
    a.mov_b_imm(9, 0x5a);
    a.mov_b_store_abs8(9, 0xd0); // P1DR through @aa:8
    a.mov_l_imm(0, 104);
    a.mov_l_label(1, "blk2");
    a.trapa(0);
    a.mov_l_imm(0, 7); // exit code
    epilogue(&mut a);
    a.label("sub");
    a.push_l(1);
    a.adds(4, 3);
    a.pop_l(1);
    a.rts();
    a.label("blk");
    a.w(0);
    a.w(1);
    a.long_label("text");
    a.w(0);
    a.w(text.len() as u16);
    a.label("blk2");
    a.w(0);
    a.w(1);
    a.long_label("text");
    a.w(0);
    a.w(0); // empty write
    a.label("text");
    for b in text {
        a.b.push(*b);
    }
    if a.b.len() % 2 == 1 {
        a.b.push(0);
    }
    finish("io", a, args)
}

/// ends in an instruction that must be rejected
pub fn prog_fail(kind: u32) -> Program {
    let mut a = Asm::new(BASE);
    a.mov_l_imm(0, 3);
    a.adds(1, 0);
    match kind {
        0 => a.w(0x0000),                                       // NOP: not implemented
        1 => a.mov_b_load_abs24(0x200000, 8),                   // unmapped data address
        2 => a.jmp_abs_addr(0x300000),                          // jump into unmapped memory: the next fetch fails
        3 => {
            a.mov_l_imm(0, 99);
            a.trapa(0)                                          // unsupported system call
        }
        5 | 6 => {
            // the first word of a two-word instruction in the LAST two bytes of a mapped region (end of DRAM / end of
            // the vector area): its extension word cannot be fetched - the error is reported for THIS instruction
            let at: u32 = if kind == 5 { 0x5ffffe } else { 0x0000fe };
            a.mov_l_imm(2, at);
            a.mov_w_imm(3, if kind == 5 { 0x5a41 } else { 0x7900 });   // JMP @aa:24 / MOV.W #xx:16,R0
            a.mov_w_store_ind(3, 2);
            a.jmp_ind(2)
        }
        _ => a.w(0x0180),                                       // SLEEP
    }
    a.adds(2, 0);
    epilogue(&mut a);
    finish("fail", a, "")
}

/// system scenario: install a handler with set_handler, program the 8-bit timer, toggle a port from the
/// compare-match interrupt while the main program counts
pub fn prog_timer(iter: u32, tcora: u8, tcr: u8) -> Program {
    let mut a = Asm::new(BASE);
    a.mov_b_imm(8, 0xff);
    a.mov_b_store_abs24(8, 0xfee005); // P6DDR = FF
    a.mov_l_imm(0, 113);
    a.mov_l_label(1, "hblk");
    a.trapa(0); // set_handler(36, handler)
    a.mov_l_imm(0, 113);
    a.mov_l_label(1, "hblk2");
    a.trapa(0); // set_handler(39, ovf)
    a.mov_b_imm(8, tcora);
    a.mov_b_store_abs24(8, 0xffff84); // TCORA
    a.mov_b_imm(8, 0xfe);
    a.mov_b_store_abs24(8, 0xffff86); // TCORB (no match of interest)
    a.mov_b_imm(8, tcr);
    a.mov_b_store_abs24(8, 0xffff80); // TCR: start
    a.mov_l_imm(0, 0);
    a.mov_l_imm(6, iter);
    a.label("loop");
    a.adds(1, 0);
    a.mov_w_imm(2, 77);
    a.mulxu_w(2, 3);
    a.dec_l1(6);
    a.bcc8(6, "loop");
    a.mov_b_imm(8, 0);
    a.mov_b_store_abs24(8, 0xffff80); // stop the timer
    epilogue(&mut a);
    a.label("handler");
    a.push_l(0);
    a.mov_b_load_abs24(0xffffd5, 8); // P6DR
    a.add_b_imm(8, 1);
    a.mov_b_store_abs24(8, 0xffffd5);
    a.mov_b_imm(8, 0);
    a.mov_b_store_abs24(8, 0xffff82); // clear the flags
    a.pop_l(0);
    a.rte();
    a.label("ovf");
    a.push_l(0);
    a.mov_b_imm(8, 0);
    a.mov_b_store_abs24(8, 0xffff82);
    a.pop_l(0);
    a.rte();
    a.label("hblk");
    a.w(0);
    a.w(36);
    a.long_label("handler");
    a.label("hblk2");
    a.w(0);
    a.w(39);
    a.long_label("ovf");
    finish("timer", a, "")
}

/// timer left running up to the exit address: `pad` shifts the phase of the last instruction against the
/// compare-match period, so that (for the right pad) the request is raised BY the instruction that reaches
/// the exit address - run() must still report success there and then
pub fn prog_timer_exit(iter: u32, tcora: u8, tcr: u8, pad: u32) -> Program {
    let mut a = Asm::new(BASE);
    a.mov_l_imm(0, 113);
    a.mov_l_label(1, "hblk");
    a.trapa(0); // set_handler(36, handler)
    a.mov_b_imm(8, tcora);
    a.mov_b_store_abs24(8, 0xffff84); // TCORA
    a.mov_b_imm(8, 0xfe);
    a.mov_b_store_abs24(8, 0xffff86); // TCORB
    a.mov_b_imm(8, tcr);
    a.mov_b_store_abs24(8, 0xffff80); // TCR: start
    a.mov_l_imm(0, 0);
    a.mov_l_imm(6, iter);
    a.label("loop");
    a.adds(1, 0);
    a.dec_l1(6);
    a.bcc8(6, "loop");
    for _ in 0..pad {
        a.mov_b_rr(8, 8);
    }
    epilogue(&mut a);
    a.label("handler");
    a.push_l(0);
    a.mov_b_imm(8, 0);
    a.mov_b_store_abs24(8, 0xffff82); // clear the flags
    a.pop_l(0);
    a.rte();
    a.label("hblk");
    a.w(0);
    a.w(36);
    a.long_label("handler");
    finish("timer-exit", a, "")
}

/// a routine copied into on-chip RAM and run there with the timer on clock/8: register moves fetched from on-chip
/// RAM are charged 2 x 3 = 6 states, less than one timer period, so the peripherals must be given every
/// instruction's charge when it is made (the per-iteration TCNT observation is explained by one phase only then)
pub fn prog_ram_timer(n: u32) -> Program {
    const RAMCODE: u32 = 0xffc000;
    let build = |exit_addr: u32| -> (Asm, usize) {
        let mut r = Asm::new(RAMCODE);
        r.mov_b_imm(8, 0xf0);
        r.mov_b_store_abs24(8, 0xffff84); // TCORA
        r.mov_b_imm(8, 0x01);
        r.mov_b_store_abs24(8, 0xffff80); // TCR: clock/8, no interrupts
        for i in 0..n {
            r.mov_b_rr(9, 9); // 6 states each
            if i % 5 == 4 {
                r.adds(1, 4); // also 6 states
            }
        }
        r.mov_b_imm(8, 0);
        r.mov_b_store_abs24(8, 0xffff80); // stop
        r.jmp_abs_addr(exit_addr);
        let (_, bytes, _) = r.finish();
        let mut a = Asm::new(BASE);
        a.mov_l_label(1, "routine");
        a.mov_l_imm(2, RAMCODE);
        a.mov_w_imm(3, bytes.len() as u16);
        a.label("copy");
        a.mov_b_load_ind(1, 8);
        a.mov_b_store_ind(8, 2);
        a.adds(1, 1);
        a.adds(1, 2);
        a.dec_w1(3);
        a.bcc8(6, "copy");
        a.jmp_abs_addr(RAMCODE);
        a.label("exit");
        a.bcc8(0, "exit");
        a.label("routine");
        let mut i = 0;
        while i < bytes.len() {
            let hi = bytes[i] as u16;
            let lo = if i + 1 < bytes.len() { bytes[i + 1] as u16 } else { 0 };
            a.w((hi << 8) | lo);
            i += 2;
        }
        (a, bytes.len())
    };
    let (a0, _) = build(0);
    let exit_addr = a0.addr("exit");
    let (a, _) = build(exit_addr);
    finish("ram-timer", a, "")
}

/// hostile programs for C15: slow bus + long instruction (charge above 85 states), stack running into a hole,
/// odd jump targets, jumps above the address space, fetch at the end of a region
pub fn prog_hostile(kind: u32) -> Program {
    let mut a = Asm::new(BASE);
    match kind {
        0 => {
            a.mov_b_imm(8, 0xff);
            a.mov_b_store_abs24(8, 0xfee023); // WCRL: three waits everywhere
            a.mov_l_imm(1, 0x420000);
            // MOV.L @(d:24,ER1),ER2: 5 fetches + 2 word accesses at 14 states each
            a.w(0x0100);
            a.w(0x7810);
            a.w(0x6b22);
            a.w(0x0000);
            a.w(0x0010);
        }
        1 => {
            a.mov_l_imm(7, 0x400002); // pushes run below DRAM
            a.push_l(0);
            a.push_l(0);
        }
        2 => {
            a.mov_l_imm(1, 0x416a01); // odd target
            a.jmp_ind(1);
        }
        3 => {
            a.mov_l_imm(1, 0xff41_6a00); // upper byte set
            a.jsr_ind(1);
        }
        4 => {
            a.mov_l_imm(7, 0x0000_0002); // RTS with the frame straddling the start of memory
            a.rts();
        }
        5 => {
            a.mov_l_imm(7, 0xffff_fffe);
            a.rte();
        }
        6 => {
            a.jmp_abs_addr(0x5ffffe); // last word of DRAM: the next fetch of a 2-word instruction crosses the end
        }
        7 => {
            a.mov_l_imm(0, 113);
            a.mov_l_imm(1, 0xffff_fffc);
            a.trapa(0);
        }
        8 => {
            a.mov_l_imm(0, 104);
            a.mov_l_label(1, "blk");
            a.trapa(0);
        }
        _ => {
            a.mov_l_imm(2, 0xffff_ffff);
            a.w(0x6c28); // MOV.B @ER2+,R0L at the top of the address space
            a.w(0x6ca8); // MOV.B R0L,@-ER2
        }
    }
    epilogue(&mut a);
    a.label("blk");
    a.w(0);
    a.w(1);
    a.w(0x005f);
    a.w(0xfff0); // buffer at the end of DRAM
    a.w(0);
    a.w(0x0100); // longer than what is left
    finish("hostile", a, "")
}

/// every on-chip I/O register of one block is written with a set of byte values and read back, one register after
/// the other, with the run loop's module update after every instruction (C15: whatever a guest stores into the
/// peripheral registers - unimplemented clock selects, reserved bits - execution goes on or stops with an error)
pub fn prog_io_storm(start: u32, count: u16) -> Program {
    let mut a = Asm::new(BASE);
    a.mov_l_imm(1, start);
    a.mov_w_imm(6, count);
    a.label("outer");
    for v in [0x00u8, 0xff, 0x05, 0x0c, 0x80, 0x49, 0xe3, 0x1f] {
        a.mov_b_imm(8, v);
        a.mov_b_store_ind(8, 1);
        a.mov_b_load_ind(1, 10);
    }
    a.adds(1, 1);
    a.dec_w1(6);
    a.bcc16(6, "outer");
    epilogue(&mut a);
    finish("io-storm", a, "")
}

/// idle program for the control-socket replay: counts until stopped
pub fn prog_idle() -> Program {
    let mut a = Asm::new(BASE);
    a.mov_l_imm(0, 0);
    a.label("loop");
    a.adds(1, 0);
    a.bcc8(0, "loop");
    a.label("exit");
    a.bcc8(0, "exit");
    finish("idle", a, "")
}

pub fn run_run_program(args: &Args) -> Result<()> {
    let outdir = args.req("out")?.to_string();
    let seed = args.num("seed", 1);
    let tier = args.get("tier").unwrap_or("quick").to_string();
    std::fs::create_dir_all(&outdir)?;
    let thorough = tier == "thorough";
    let mut rng = Rng::new(seed ^ hash_str("C13"), 3);
    let elf_path = format!("{}/prog.elf", outdir);
    // the guest's console output (fd 1) is captured; this driver reports on stderr
    *CONSOLE.lock().unwrap() = Some(ConsoleCapture::install(std::path::Path::new(&format!("{}/console.bin", outdir)))?);
    let text: Vec<u8> = "h\\i\n\u{e9}\u{20ac}\u{1f600} end\\n\n".as_bytes().to_vec();
    // state counts: one loop iteration of prog_count costs (16+28+8+8+16)*3 = 228 states
    // (program, iteration budget, lite): lite traces are validated for accounting / sync / continuity only
    // (long runs across sync thresholds); the others instruction by instruction against the full spec
    let c15 = args.get("set") == Some("c15");
    let small = args.get("set") == Some("selftest");       // bin/selftest: one short run, validated in full
    let mut progs: Vec<(Program, u64, bool)> = if small {
        vec![(prog_count(40, 0), 100_000, false)]
    } else if c15 {
        let mut v: Vec<(Program, u64, bool)> = (0..10).map(|k| (prog_hostile(k), 2000u64, false)).collect();
        for k in 0..5 {
            v.push((prog_fail(k), 1000, false));
        }
        v.push((prog_io_storm(0xffff20, 202), 20_000, false));
        v.push((prog_io_storm(0xfee000, 256), 20_000, false));
        v
    } else { vec![
        (prog_io(9, &text, "alpha  beta\tgamma"), 100_000, false),
        (prog_fail(0), 1000, false),
        (prog_fail(1), 1000, false),
        (prog_fail(2), 1000, false),
        (prog_fail(3), 1000, false),
        (prog_fail(4), 1000, false),
        (prog_fail(5), 1000, false),
        (prog_fail(6), 1000, false),
        (prog_count(120, 0), 100_000, false),
        (prog_hostile(0), 2000, false),                      // slow bus, one instruction charged 98 states: booked in full (x the speed factor)
        (prog_ram_timer(40), 100_000, false),                // 6-state instructions from on-chip RAM under a running timer
        (prog_timer(150, 200, 0x49), 200_000, false),      // CMIEA, clear on A, clock/8: a match every 1600 states
        (prog_timer(120, 40, 0x6a), 200_000, false),       // CMIEA+OVIE, clear on A, clock/64
        (prog_count(8_800, 1), 200_000, true),             // just past the first sync threshold
        (prog_count(26_500, 3), 400_000, true),            // three thresholds (sync drift shows from the second one on)
    ] };
    if thorough && !c15 {
        progs.push((prog_count(44_100, 5), 600_000, true)); // five thresholds
        progs.push((prog_timer(9000, 200, 0x4b), 400_000, false)); // clock/8192, long: full trace with snapshots
        progs.push((prog_count(17_700, 2), 300_000, true));
        progs.push((prog_io(400, &text, ""), 100_000, false));
        progs.push((prog_timer(1500, 200, 0x49), 200_000, false));
    }
    // Input selection for the multi-threshold run (no expected value involved): the padding is chosen, by
    // measuring silent runs, so that an instruction boundary falls into the window just above the second
    // threshold that is as wide as the overshoot at the first one - the place where an implementation that
    // counts "states since the last sync" instead of multiples of the total would announce late.
    if !c15 && !small {
        let mut best: Option<u32> = None;
        for pad in 0..24u32 {
            let p = prog_count(26_500, pad);
            let r = run_program(&p, &elf_path, None, vec![], 400_000, 0, &mut rng, 0)?;
            let o1 = r.sums.iter().find(|s| **s >= 2_000_000).map(|s| *s - 2_000_000).unwrap_or(0);
            if o1 > 0 && r.sums.iter().any(|s| *s >= 4_000_000 && *s < 4_000_000 + o1) {
                best = Some(pad);
                break;
            }
        }
        if let Some(pad) = best {
            for e in progs.iter_mut() {
                if e.2 && e.0.image.len() == prog_count(26_500, 3).image.len() {
                    *e = (prog_count(26_500, pad), 400_000, true);
                }
            }
        }
    }
    let mut total_events = 0u64;
    let mut nprog = 0;
    let busy_flag = std::sync::Arc::new(std::sync::atomic::AtomicBool::new(false));
    for (pi, (p, max_iters, lite)) in progs.iter().enumerate() {
        // a long run of a program that writes peripheral registers cannot be validated in the lite projection (the
        // guest's stores are not in a lite trace): it is logged in full, with whole-memory snapshots for sharding
        let long_full = !*lite && *max_iters >= 400_000;
        let log = format!("{}/thr_{}_{:02}.ndjson", outdir, if *lite { "lite" } else if long_full { "run_ex_p" } else { "run" }, pi);
        let s1 = if long_full {
            let file = elf_of(p, &mut rng);
            std::fs::write(&elf_path, &file)?;
            run_elf(&elf_path, &p.args, Some(&log), vec![], *max_iters, 0, 0, false, 300)?
        } else {
            run_program_x(p, &elf_path, Some(&log), vec![], *max_iters, 0, &mut rng, 0, *lite)?
        };
        total_events += s1.events;
        nprog += 1;
        if c15 || small {
            continue;
        }
        // determinism: two more runs, then two under host load; only their summaries are compared
        let mut id = s1.events;
        let mut w = std::fs::OpenOptions::new().append(true).open(&log)?;
        for rep in 0..4 {
            let mut busy = Vec::new();
            if rep >= 2 {
                busy_flag.store(true, std::sync::atomic::Ordering::SeqCst);
                for _ in 0..24 {
                    let f = busy_flag.clone();
                    busy.push(std::thread::spawn(move || {
                        let mut x = 1u64;
                        while f.load(std::sync::atomic::Ordering::Relaxed) {
                            x = x.wrapping_mul(6364136223846793005).wrapping_add(1);
                        }
                        x
                    }));
                }
            }
            let s2 = run_program(p, &elf_path, None, vec![], *max_iters, 0, &mut rng, 0)?;
            busy_flag.store(false, std::sync::atomic::Ordering::SeqCst);
            for b in busy {
                let _ = b.join();
            }
            writeln!(w, "{{\"k\":\"cmp\",\"id\":{},\"what\":\"repeated-run-{}{}\",\"a\":{},\"b\":{}}}", id, rep, if rep >= 2 { "-under-load" } else { "" }, j_u32s(&s1.vec()), j_u32s(&s2.vec()))?;
            id += 1;
            total_events += 1;
        }
    }
    if !c15 && !small {
        // (a) the time base does not depend on WHEN control lines arrive: pause / start / a redundant start in
        //     the middle of a long run that crosses two sync thresholds afterwards
        let p = prog_count(17_700, 2);
        let mut sched: Vec<Vec<String>> = vec![Vec::new(); 9_001];
        sched[4_100] = vec!["cmd:pause".to_string()];
        sched[4_103] = vec!["cmd:start".to_string()];
        sched[9_000] = vec!["cmd:start".to_string()];
        let log = format!("{}/thr_lite_{:02}.ndjson", outdir, progs.len());
        let s = run_program_x(&p, &elf_path, Some(&log), sched, 300_000, 0, &mut rng, 0, true)?;
        total_events += s.events;
        nprog += 1;
        // (b) an interrupt request raised by the very instruction that reaches the exit address: input
        //     selection by measuring silent runs (no expected value involved), then one logged run
        let mut chosen: Option<u32> = None;
        for pad in 0..90u32 {
            let p = prog_timer_exit(60, 200, 0x49, pad);
            let r = run_program(&p, &elf_path, None, vec![], 50_000, 0, &mut rng, 0)?;
            if std::env::var("H8_DEBUG_PAD").is_ok() {
                eprintln!("pad {} res {} pend_at_exit {} iters {} sum {}", pad, r.res, r.pend_at_exit, r.iters, r.sum);
            }
            if r.res == "ok" && r.pend_at_exit {
                chosen = Some(pad);
                break;
            }
        }
        if let Some(pad) = chosen {
            let p = prog_timer_exit(60, 200, 0x49, pad);
            let log = format!("{}/thr_run_{:02}.ndjson", outdir, progs.len() + 1);
            let s = run_program_x(&p, &elf_path, Some(&log), vec![], 50_000, 0, &mut rng, 0, false)?;
            total_events += s.events;
            nprog += 1;
        } else {
            eprintln!("run-program: no padding makes the compare match fall into the last instruction (input selection failed)");
        }
        // (c) the instruction that reaches the exit address is the very one that carries the total past a
        //     multiple of the interval: its sync is due before the run reports success.  Input selection by
        //     measuring silent runs (totals are linear in the loop count and the padding; no expected value)
        let base_n = 8_700u32;
        let r0 = run_program(&prog_count(base_n, 0), &elf_path, None, vec![], 200_000, 0, &mut rng, 0)?;
        let mut picked: Option<(u32, u32)> = None;
        if r0.res == "ok" && r0.sums.len() >= 2 {
            let s0 = *r0.sums.last().unwrap() as i64;
            let c = s0 - r0.sums[r0.sums.len() - 2] as i64;
            let r1 = run_program(&prog_count(base_n + 1, 0), &elf_path, None, vec![], 200_000, 0, &mut rng, 0)?;
            let r2 = run_program(&prog_count(base_n, 1), &elf_path, None, vec![], 200_000, 0, &mut rng, 0)?;
            let per_n = *r1.sums.last().unwrap_or(&0) as i64 - s0;
            let per_pad = *r2.sums.last().unwrap_or(&0) as i64 - s0;
            let delta = 2_000_000i64 - s0;
            let mut tries = 0;
            'sel: for dn in 0..200i64 {
                for pad in 0..24i64 {
                    let add = per_n * dn + per_pad * pad;
                    if per_n > 0 && per_pad > 0 && add >= delta && add < delta + c {
                        let p = prog_count(base_n + dn as u32, pad as u32);
                        let r = run_program(&p, &elf_path, None, vec![], 200_000, 0, &mut rng, 0)?;
                        let k = r.sums.len();
                        if r.res == "ok" && k >= 2 && r.sums[k - 1] >= 2_000_000 && r.sums[k - 2] < 2_000_000 {
                            picked = Some((base_n + dn as u32, pad as u32));
                            break 'sel;
                        }
                        tries += 1;
                        if tries > 8 {
                            break 'sel;
                        }
                    }
                }
            }
        }
        if let Some((n, pad)) = picked {
            let p = prog_count(n, pad);
            let log = format!("{}/thr_lite_{:02}.ndjson", outdir, progs.len() + 2);
            let s = run_program_x(&p, &elf_path, Some(&log), vec![], 200_000, 0, &mut rng, 0, true)?;
            total_events += s.events;
            nprog += 1;
        } else {
            eprintln!("run-program: no loop count / padding makes the last instruction cross the first threshold (input selection failed)");
        }
    }
    let _ = std::fs::remove_file(&elf_path);
    eprintln!("{{\"driver\":\"run-program\",\"events\":{},\"programs\":{},\"runs\":{}}}", total_events, nprog, nprog * 5);
    Ok(())
}

// ------------------------------------------------------------------------------------------------
// replay of a recorded run-loop trace that starts with its `load` event: the loaded state (registers, whole
// memory, exit address) and the control lines - each batch at the poll that follows the same number of
// executed iterations - are the inputs; everything else is produced again by the current tree.
// ------------------------------------------------------------------------------------------------
pub fn redrive_run(evs: &[serde_json::Value], out: &str, lite: bool, first_id: u64) -> Result<bool> {
    let u = |v: &serde_json::Value| v.as_u64().unwrap_or(0);
    let e0 = &evs[0];
    if e0["k"] != "load" || !e0["exit"].is_array() {
        return Ok(false);
    }
    *emu::setting::ENABLE_PRINT_OPCODE.write().unwrap() = false;
    *emu::setting::ENABLE_PRINT_MESSAGES.write().unwrap() = false;
    *emu::setting::ENABLE_WAIT_START.write().unwrap() = false;
    let mut cpu = Cpu::new();
    let pre: Vec<u32> = e0["pre"].as_array().ok_or_else(|| anyhow!("pre"))?.iter().map(|x| u(x) as u32).collect();
    for i in 0..8 {
        cpu.er[i] = (pre[2 * i] << 16) | pre[2 * i + 1];
    }
    cpu.vh_set_ccr(pre[16] as u8);
    cpu.exit_addr = ((u(&e0["exit"][0]) << 16) | u(&e0["exit"][1])) as u32;
    for run in e0["pk"].as_array().ok_or_else(|| anyhow!("pk"))? {
        let st = u(&run[0]) as u32;
        for (i, b) in run[1].as_array().ok_or_else(|| anyhow!("run"))?.iter().enumerate() {
            let a = st + i as u32;
            let v = u(b) as u8;
            match a {
                VEC_LO..=VEC_HI => cpu.bus.exception_handling_vector[(a - VEC_LO) as usize] = v,
                DRAM_LO..=DRAM_HI => cpu.bus.dram[(a - DRAM_LO) as usize] = v,
                IO1_LO..=IO1_HI => cpu.bus.io_registrs1[(a - IO1_LO) as usize] = v,
                RAM_LO..=RAM_HI => cpu.bus.memory[(a - RAM_LO) as usize] = v,
                IO2_LO..=IO2_HI => cpu.bus.io_registrs2[(a - IO2_LO) as usize] = v,
                _ => {}
            }
        }
    }
    let mut sched: std::collections::VecDeque<(u64, Vec<String>)> = Default::default();
    let mut its = 0u64;
    let mut has_ret = false;
    for e in &evs[1..] {
        match e["k"].as_str().unwrap_or("") {
            "it" => its += 1,
            "upto" => its += u(&e["its"]), // iterations of earlier parts of a cut trace (see bin/check run_prefix)
            "poll" => {
                let lines: Vec<String> = e["lines"].as_array().map(|a| a.iter().map(|l| String::from_utf8_lossy(&l.as_array().map(|b| b.iter().map(|x| u(x) as u8).collect::<Vec<u8>>()).unwrap_or_default()).to_string()).collect()).unwrap_or_default();
                sched.push_back((its, lines));
            }
            "ret" => {
                has_ret = true;
                // lines of the final poll (e.g. cmd:stop) are recorded with the return
                let lines: Vec<String> = e["lines"].as_array().map(|a| a.iter().map(|l| String::from_utf8_lossy(&l.as_array().map(|b| b.iter().map(|x| u(x) as u8).collect::<Vec<u8>>()).unwrap_or_default()).to_string()).collect()).unwrap_or_default();
                if !lines.is_empty() {
                    sched.push_back((its, lines));
                }
            }
            _ => {}
        }
    }
    // a truncated recording (no `ret`): stop after the recorded number of iterations
    let budget = if has_ret { its + 100_000 } else { its };
    run_cpu(cpu, Some(out), vec![], sched, budget, 0, first_id, lite, 0)?;
    Ok(true)
}

// ------------------------------------------------------------------------------------------------
// C13 (and every instruction property at once): the repository's own example programs - compiler
// output linked against the MES run-time - through elf::load + Cpu::run, every iteration logged with
// the whole-memory diff and validated instruction by instruction; full snapshots allow sharding.
// ------------------------------------------------------------------------------------------------
pub fn run_example_run(args: &Args) -> Result<()> {
    let outdir = args.req("out")?.to_string();
    let repo = args.get("repo").unwrap_or("/repo").to_string();
    let tier = args.get("tier").unwrap_or("quick").to_string();
    std::fs::create_dir_all(&outdir)?;
    *CONSOLE.lock().unwrap() = Some(ConsoleCapture::install(std::path::Path::new(&format!("{}/console.bin", outdir)))?);
    let budget: u64 = if tier == "thorough" { 60_000 } else { 2_400 };
    let snap: u64 = 300;
    let mut names: Vec<String> = std::fs::read_dir(format!("{}/example", repo))?
        .filter_map(|e| e.ok())
        .map(|e| e.file_name().to_string_lossy().to_string())
        .filter(|n| n.ends_with(".elf"))
        .collect();
    names.sort();
    let mut total = 0u64;
    let mut nprog = 0;
    for (i, n) in names.iter().enumerate() {
        let log = format!("{}/thr_run_ex{:02}.ndjson", outdir, i);
        let s = run_elf(&format!("{}/example/{}", repo, n), if i % 2 == 0 { "" } else { "one two" }, Some(&log), vec![], budget, 0, 0, false, snap)?;
        eprintln!("example {} -> {} after {} iterations, {} states", n, s.res, s.iters, s.sum);
        total += s.events;
        nprog += 1;
    }
    eprintln!("{{\"driver\":\"example-run\",\"events\":{},\"programs\":{}}}", total, nprog);
    Ok(())
}

// ------------------------------------------------------------------------------------------------
// C18: control-line schedules (sequence x partition into polls) generated by TLC
// ------------------------------------------------------------------------------------------------
fn line_of(kind: u32, k: usize, rng: &mut Rng) -> String {
    match kind {
        1 => "cmd:pause".into(),
        2 => "cmd:start".into(),
        3 => "cmd:stop".into(),
        4 => format!("u8:ffffd0:{:x}", 0x10 + (k % 7) as u8),
        5 => format!("u8:ffffd0:{:x}", 0xa5u8.rotate_left((k % 8) as u32)),
        6 => format!("ioport:2:{:x}", rng.u8()),
        7 => rng.pick(&["cmd:x:y", "cmd", "cmd:", "cmd:pause:now", "cmd:stop:1", "cmd::"]).to_string(),
        8 => rng.pick(&["foo", "", ":", "sync:1", "ready", "u9:1:2", "IOPORT:1:2", "u8", "ioport", "stdout:hi"]).to_string(),
        9 => format!("u8:ffcf2{:x}:{:x}", k % 16, rng.u8()),
        10 => rng.pick(&["u8:zz:1", "u8:ffcf20:100", "u8:ffcf20:-1", "u8:ffcf20", "u8:ffcf20:1:2", "u8::", "u8:1000000:5", "u8:200000:5", "ioport:c:1", "ioport:0:1", "ioport:1:1ff", "ioport:1", "ioport:g:1", "u8:ffcf20:g"]).to_string(),
        11 => format!("u8:FFFFD0:{:X}", 0xc0 + (k % 5) as u8), // upper-case hex
        // port 3 interplay: direction, data and pin lines over tiny value sets, so that a pin line often names
        // exactly what DR currently shows, outputs are switched back to inputs, ... (every line acts once)
        13 => format!("u8:fee002:{:x}", rng.pick(&[0xf0u8, 0x0f, 0x00, 0xff])),
        14 => format!("u8:ffffd2:{:x}", rng.pick(&[0xa0u8, 0xa5, 0x05, 0x5a])),
        15 => format!("ioport:3:{:x}", rng.pick(&[0xa5u8, 0xa0, 0x05, 0x00, 0xff])),
        _ => format!("u8:ffffd{:x}:{:x}", 1 + k % 9, rng.u8()),  // DR of a port that is still all inputs
    }
}

/// grammar fuzzer for control lines (C15): field counts 0-5, empty fields, huge / hex / non-hex numbers
fn fuzz_line(rng: &mut Rng) -> String {
    let heads = ["cmd", "u8", "ioport", "", "CMD", "u16", "sync", "stdout", "ready", "u8 ", " cmd"];
    let fields = ["", "0", "1", "b", "c", "ff", "100", "ffffd0", "fee000", "ffcf20", "ffffffff", "100000000", "fffffffffffffffff", "-1", "+1", "0x10", "g", "pause", "start",
                  "stop", " ", "\t", "ffff80", "ffff88", "00000000000000000000ff", "é", "1e3", "0b1", "7fffffff", "80000000", "ffffe9", "ffffea", "400000", "5fffff"];
    let n = rng.below(6);
    let mut s = rng.pick(&heads).to_string();
    for _ in 0..n {
        s.push(':');
        s.push_str(rng.pick(&fields));
    }
    if rng.chance(1, 40) {
        s = "cmd:stop".into();
    }
    s
}

pub fn run_sock_replay(args: &Args) -> Result<()> {
    let outdir = args.req("out")?.to_string();
    let seed = args.num("seed", 1);
    let tier = args.get("tier").unwrap_or("quick").to_string();
    let threads = args.num("threads", 8) as usize;
    std::fs::create_dir_all(&outdir)?;
    // behaviours: [[kind, batchno], ...] - batchno is the poll in which the line is delivered
    let mut beh: Vec<Vec<(u32, u32)>> = Vec::new();
    if let Some(p) = args.get("in") {
        for line in std::fs::read_to_string(p)?.lines() {
            let v: serde_json::Value = serde_json::from_str(line)?;
            beh.push(v.as_array().ok_or_else(|| anyhow!("behaviour"))?.iter().map(|x| (x[0].as_u64().unwrap_or(8) as u32, x[1].as_u64().unwrap_or(0) as u32)).collect());
        }
    }
    let beh = std::sync::Arc::new(beh);
    let nb = beh.len();
    let fuzz = args.get("fuzz").is_some();
    let n_random = if fuzz { if tier == "thorough" { 4000 } else { 600 } } else if tier == "thorough" { 1500 } else { 200 };
    let mut handles = Vec::new();
    for t in 0..threads {
        let outdir = outdir.clone();
        let beh = beh.clone();
        handles.push(std::thread::spawn(move || -> Result<(u64, u64)> {
            let mut rng = Rng::new(seed ^ hash_str("C18"), t as u64);
            let log = format!("{}/thr_sock_{:02}.ndjson", outdir, t);
            let elf_path = format!("{}/sock_{:02}.elf", outdir, t);
            let _ = std::fs::remove_file(&log);
            let prog = prog_idle();
            let mut id = 0u64;
            let mut nh = 0u64;
            for k in (t..nb + n_random).step_by(threads) {
                // set-up poll: port 1 all outputs (every effective DR write is announced), then the schedule
                let mut schedule: Vec<Vec<String>> = vec![vec!["u8:fee000:ff".to_string()], vec![]];
                if k < nb {
                    let maxb = beh[k].iter().map(|x| x.1).max().unwrap_or(0) as usize;
                    let mut batches: Vec<Vec<String>> = vec![Vec::new(); maxb + 1];
                    for (i, (kind, b)) in beh[k].iter().enumerate() {
                        batches[*b as usize].push(line_of(*kind, k + i, &mut rng));
                    }
                    schedule.extend(batches);
                } else {
                    // random: long sequences, big batches (more than 16 lines in one poll), empty polls between
                    if fuzz && k == nb + t {
                        // register storm through control lines: every timer register x byte values, a poll each
                        for reg in 0xffff80u32..=0xffff89 {
                            for v in [0x00u8, 0x05, 0x0c, 0xff, 0x49, 0x04, 0x07, 0xe3] {
                                schedule.push(vec![format!("u8:{:x}:{:x}", reg, v)]);
                            }
                        }
                        let s = run_program(&prog, &elf_path, Some(&log), schedule, 400, 6, &mut rng, id)?;
                        id = s.events;
                        nh += 1;
                        continue;
                    }
                    let portmix = !fuzz && k % 3 == 0;
                    let nbatch = if portmix { 4 + rng.below(8) } else { 1 + rng.below(6) };
                    for _ in 0..nbatch {
                        if portmix {
                            let b: Vec<String> = (0..1 + rng.below(3)).map(|i| line_of(13 + rng.below(3) as u32, k + i, &mut rng)).collect();
                            schedule.push(b);
                            continue;
                        }
                        let n = match rng.below(5) {
                            0 => 0,
                            1 => 1,
                            2 => 17 + rng.below(30),
                            _ => 2 + rng.below(8),
                        };
                        let mut b = Vec::new();
                        for i in 0..n {
                            if fuzz {
                                b.push(fuzz_line(&mut rng));
                                continue;
                            }
                            let kind = match rng.below(20) {
                                0 => 1,
                                1 | 2 => 2,
                                3 => if rng.chance(1, 6) { 3 } else { 8 },
                                4..=9 => 4 + rng.below(2) as u32,
                                10 => 6,
                                11 => 7,
                                12 => 8,
                                13 | 14 => 9,
                                15 => 10,
                                16 => 11,
                                17 => 12,
                                _ => 4,
                            };
                            b.push(line_of(kind, k * 31 + i, &mut rng));
                        }
                        schedule.push(b);
                        if rng.chance(1, 3) {
                            schedule.push(vec![]);
                        }
                    }
                }
                let s = run_program(&prog, &elf_path, Some(&log), schedule, 400, 6, &mut rng, id)?;
                id = s.events;
                nh += 1;
            }
            let _ = std::fs::remove_file(&elf_path);
            Ok((id, nh))
        }));
    }
    let (mut n, mut nh) = (0, 0);
    for hd in handles {
        let (a, b) = hd.join().map_err(|_| anyhow!("thread"))??;
        n += a;
        nh += b;
    }
    println!("{{\"driver\":\"sock-replay\",\"events\":{},\"histories\":{},\"tlc_behaviours\":{}}}", n, nh, nb);
    Ok(())
}

// ------------------------------------------------------------------------------------------------
// C18 outgoing framing over a REAL TCP connection on localhost: the emulator's own send worker
// escapes and terminates every message; the harness is the client and records the byte stream.
// ------------------------------------------------------------------------------------------------
pub fn run_tcp_frame(args: &Args) -> Result<()> {
    use std::io::Read;
    let outdir = args.req("out")?.to_string();
    let seed = args.num("seed", 1);
    let tier = args.get("tier").unwrap_or("quick").to_string();
    std::fs::create_dir_all(&outdir)?;
    let mut rng = Rng::new(seed ^ hash_str("C18tcp"), 11);
    *CONSOLE.lock().unwrap() = Some(ConsoleCapture::install(std::path::Path::new(&format!("{}/console.bin", outdir)))?);
    *emu::setting::ENABLE_PRINT_OPCODE.write().unwrap() = false;
    *emu::setting::ENABLE_PRINT_MESSAGES.write().unwrap() = false;
    *emu::setting::ENABLE_WAIT_START.write().unwrap() = false;
    let mut w = BufWriter::new(std::fs::File::create(format!("{}/tcp.ndjson", outdir))?);
    let elf_path = format!("{}/tcp.elf", outdir);
    let texts: Vec<Vec<u8>> = {
        let mut v: Vec<Vec<u8>> = vec![
            b"plain".to_vec(),
            b"back\\slash and \\n literal".to_vec(),
            b"line1\nline2\n".to_vec(),
            b"\\".to_vec(),
            b"\n".to_vec(),
            b"\\\n\\n\n\\".to_vec(),
            "h\\i\n\u{e9}\u{20ac}\u{1f600} end\\n\n".as_bytes().to_vec(),
            vec![0, 1, 2, 10, 92, 110, 127],
        ];
        let n = if tier == "thorough" { 60 } else { 12 };
        for _ in 0..n {
            let len = rng.below(60);
            let mut t = Vec::new();
            while t.len() < len {
                match rng.below(8) {
                    0 => t.push(92),
                    1 => t.push(10),
                    2 => t.push(110),
                    3 => t.extend_from_slice("\u{e9}".as_bytes()),
                    4 => t.extend_from_slice("\u{1f600}".as_bytes()),
                    _ => t.push(32 + rng.below(95) as u8),
                }
            }
            v.push(t);
        }
        v
    };
    let mut id = 0u64;
    for (k, text) in texts.iter().enumerate() {
        let prog = prog_io(3 + (k % 4) as u16, text, "");
        let file = elf_of(&prog, &mut rng);
        std::fs::write(&elf_path, &file)?;
        // find a free port: the emulator listens, the harness connects
        let mut done = false;
        for attempt in 0..20 {
            let port = 21000 + ((seed as usize * 131 + k * 17 + attempt * 977) % 20000);
            let addr = format!("127.0.0.1:{}", port);
            let a2 = addr.clone();
            let client = std::thread::spawn(move || -> Option<Vec<u8>> {
                for _ in 0..400 {
                    if let Ok(mut s) = std::net::TcpStream::connect(&a2) {
                        let mut buf = Vec::new();
                        let _ = s.read_to_end(&mut buf);
                        return Some(buf);
                    }
                    std::thread::sleep(std::time::Duration::from_millis(5));
                }
                None
            });
            let mut cpu = Cpu::new();
            emu::elf::load(elf_path.clone(), &mut cpu, String::new());
            if cpu.connect_socket(&addr).is_err() {
                let _ = client.join();
                continue;
            }
            verif_hooks::sink_install();
            let _ = verif_hooks::sink_take();
            let r = std::panic::catch_unwind(std::panic::AssertUnwindSafe(|| cpu.run()));
            let msgs: Vec<Vec<u8>> = verif_hooks::sink_take().into_iter().map(|s| s.into_bytes()).collect();
            cpu.vh_detach_socket(); // closes the channel: the send worker flushes and shuts the stream down
            drop(cpu);
            let bytes = client.join().ok().flatten().unwrap_or_default();
            let _ = console_take();
            writeln!(w, "{{\"k\":\"tcp\",\"id\":{},\"res\":\"{}\",\"bytes\":{},\"msgs\":{}}}", id, if matches!(r, Ok(Ok(()))) { "ok" } else { "err" }, j_bytes(&bytes), j_msgs(&msgs))?;
            id += 1;
            done = true;
            break;
        }
        if !done {
            return Err(anyhow!("no free TCP port found"));
        }
    }
    w.flush()?;
    let _ = std::fs::remove_file(&elf_path);
    eprintln!("{{\"driver\":\"tcp-frame\",\"events\":{},\"histories\":{}}}", id, id);
    Ok(())
}

// ------------------------------------------------------------------------------------------------
// C18 incoming side over a REAL TCP connection: the emulator's own receive worker splits the byte stream into
// lines.  The emulator waits for start (paused), the harness connects as the controller and writes control lines
// in various chunkings - several lines in one write, a line split across writes, an over-long unknown line whose
// tail looks like a command - then, once the run loop has polled long enough after the last byte, ONE poll event
// with all lines sent is recorded (no instruction executes while paused, so the effect of the lines does not
// depend on which poll saw which line), and finally cmd:stop.
// ------------------------------------------------------------------------------------------------
pub fn run_tcp_lines(args: &Args) -> Result<()> {
    use std::sync::atomic::{AtomicBool, AtomicU64, Ordering};
    use std::sync::Arc;
    let outdir = args.req("out")?.to_string();
    let seed = args.num("seed", 1);
    let tier = args.get("tier").unwrap_or("quick").to_string();
    std::fs::create_dir_all(&outdir)?;
    let mut rng = Rng::new(seed ^ hash_str("C18tcpin"), 5);
    *CONSOLE.lock().unwrap() = Some(ConsoleCapture::install(std::path::Path::new(&format!("{}/console.bin", outdir)))?);
    *emu::setting::ENABLE_PRINT_OPCODE.write().unwrap() = false;
    *emu::setting::ENABLE_PRINT_MESSAGES.write().unwrap() = false;
    let elf_path = format!("{}/tcpin.elf", outdir);
    let log = format!("{}/thr_sock_tcpin.ndjson", outdir);
    let _ = std::fs::remove_file(&log);
    let long = |n: usize, tail: &str| -> String { let mut s = "x".repeat(n); s.push_str(tail); s };
    // (lines, chunk boundaries as byte offsets into the joined stream; empty = one write)
    let mut cases: Vec<(Vec<String>, Vec<usize>)> = vec![
        (vec!["u8:fee000:ff".into(), "u8:ffffd0:a5".into(), "ioport:2:3c".into(), "u8:ffcf20:11".into()], vec![]),
        (vec!["u8:fee001:f0".into(), "u8:ffffd1:5a".into(), "ioport:2:0f".into()], vec![5, 19, 20, 33]),
        (vec![long(5000, ":u8:fee002:ff"), "u8:fee003:0f".into()], vec![]),
        (vec![long(4090, ":zz\u{e9}\u{e9}\u{e9}\u{e9}:u8:ffcf30:77"), "u8:ffcf31:78".into()], vec![4000]),
        (vec![long(4083, ":u8:ffcf40:1"), long(8200, ":cmd:pause:x:u8:ffcf41:2"), "u8:ffcf42:3".into(), "".into(), "foo".into()], vec![100, 9000]),
        (vec!["ioport:c:ff".into(), "ioport:0:1".into(), "ioport:b:81".into(), "u8:fee00a:0f".into(), "u8:ffffda:ff".into()], vec![]),
        // white-space-only lines (blank, tab, the CR of a CR LF blank line) are unknown lines: each is ignored on its
        // own and must not leak into the line that follows it
        (vec![" ".into(), "u8:ffcf50:21".into(), "\t".into(), "u8:ffcf51:22".into(), "\r".into(), "u8:ffcf52:23".into(), "  \t ".into(), "cmd:foo".into(), "u8:ffcf53:24".into(), "".into(), "u8:ffcf54:25".into()], vec![]),
        (vec!["\r".into(), "u8:fee004:ff".into(), " ".into(), " ".into(), "u8:ffffd3:3c".into(), "\t\t".into(), "ioport:4:c3".into()], vec![1, 2, 3, 17, 18]),
    ];
    for _ in 0..(if tier == "thorough" { 30 } else { 3 }) {
        let n = 1 + rng.below(6);
        let lines: Vec<String> = (0..n).map(|i| match rng.below(8) {
            0 => long(4000 + rng.below(400), &format!(":u8:ffcf5{:x}:{:x}", i, rng.u8())),
            _ => line_of([4u32, 5, 6, 9, 13, 14, 15, 7, 8][rng.below(9)], i, &mut rng),
        }).collect();
        let total: usize = lines.iter().map(|l| l.len() + 1).sum();
        let cuts: Vec<usize> = (0..rng.below(4)).map(|_| rng.below(total.max(1))).collect();
        cases.push((lines, cuts));
    }
    let prog = prog_idle();
    let mut first_id = 0u64;
    let mut nh = 0u64;
    for (k, (lines0, cuts)) in cases.iter().enumerate() {
        let sentinel: u8 = 0x80 | (k as u8 & 0x7f);
        let mut lines_v = lines0.clone();
        lines_v.push(format!("u8:ffcf7e:{:x}", sentinel));
        let lines = &lines_v;
        let file = elf_of(&prog, &mut rng);
        std::fs::write(&elf_path, &file)?;
        let mut done = false;
        for attempt in 0..20 {
            let port = 23000 + ((seed as usize * 173 + k * 29 + attempt * 991) % 18000);
            let addr = format!("127.0.0.1:{}", port);
            let sent = Arc::new(AtomicBool::new(false));
            let finish = Arc::new(AtomicBool::new(false));
            let (a2, sent2, finish2) = (addr.clone(), sent.clone(), finish.clone());
            let mut stream: Vec<u8> = Vec::new();
            for l in lines {
                stream.extend_from_slice(l.as_bytes());
                stream.push(b'\n');
            }
            let mut cs = cuts.clone();
            cs.sort();
            cs.dedup();
            let client = std::thread::spawn(move || -> bool {
                use std::io::Write as _;
                for _ in 0..400 {
                    if let Ok(mut s) = std::net::TcpStream::connect(&a2) {
                        let _ = s.set_nodelay(true);
                        let mut at = 0usize;
                        for c in cs.iter().chain(std::iter::once(&stream.len())) {
                            let c = (*c).min(stream.len());
                            if c > at {
                                let _ = s.write_all(&stream[at..c]);
                                let _ = s.flush();
                                at = c;
                                std::thread::sleep(std::time::Duration::from_millis(3));
                            }
                        }
                        sent2.store(true, Ordering::SeqCst);
                        for _ in 0..4000 {
                            if finish2.load(Ordering::SeqCst) {
                                break;
                            }
                            std::thread::sleep(std::time::Duration::from_millis(2));
                        }
                        let _ = s.write_all(b"cmd:stop\n");
                        let _ = s.flush();
                        // keep the connection open until the emulator closes it
                        let mut buf = Vec::new();
                        let _ = std::io::Read::read_to_end(&mut s, &mut buf);
                        return true;
                    }
                    std::thread::sleep(std::time::Duration::from_millis(5));
                }
                false
            });
            *emu::setting::ENABLE_WAIT_START.write().unwrap() = true;
            let mut cpu = Cpu::new();
            emu::elf::load(elf_path.clone(), &mut cpu, String::new());
            if cpu.connect_socket(&addr).is_err() {
                finish.store(true, Ordering::SeqCst);
                let _ = client.join();
                continue;
            }
            verif_hooks::sink_install();
            let w = Rc::new(RefCell::new(BufWriter::new(std::fs::OpenOptions::new().create(true).append(true).open(&log)?)));
            let shadow: Rc<RefCell<Option<Shadow>>> = Rc::new(RefCell::new(None));
            let idc = Rc::new(RefCell::new(first_id));
            let polls_after = Arc::new(AtomicU64::new(0));
            let logged = Rc::new(RefCell::new(false));
            let since: Rc<RefCell<Option<std::time::Instant>>> = Rc::new(RefCell::new(None));
            let exit_addr = cpu.exit_addr;
            let (w1, sh1, id1) = (w.clone(), shadow.clone(), idc.clone());
            let fin_poll = finish.clone();
            let fin_since: Rc<RefCell<Option<std::time::Instant>>> = Rc::new(RefCell::new(None));
            verif_hooks::set_on_poll(Some(Box::new(move |c: &mut Cpu| {
                // watchdog: cmd:stop has been written to the connection; a run loop that never acts on it (lines lost
                // in the receive path) is ended here and recorded as such instead of hanging the driver
                if fin_poll.load(Ordering::SeqCst) {
                    let mut fs = fin_since.borrow_mut();
                    if fs.is_none() {
                        *fs = Some(std::time::Instant::now());
                    } else if fs.map(|t| t.elapsed().as_secs() >= 25).unwrap_or(false) {
                        panic!("cmd:stop sent over TCP was not acted on within 25 s");
                    }
                }
                if sh1.borrow().is_none() {
                    let sh = Shadow::of(c);
                    let pokes = sh.nonzero_pokes();
                    let regs = regs_of(c);
                    let mut id = id1.borrow_mut();
                    let _ = writeln!(w1.borrow_mut(), "{{\"k\":\"load\",\"id\":{},\"bg\":\"zero\",\"pre\":{},\"pk\":{},\"pend\":[],\"exit\":[{},{}]}}",
                                     *id, j_u32s(&regs.vec19()), j_runs(&pokes), exit_addr >> 16, exit_addr & 0xffff);
                    *id += 1;
                    *sh1.borrow_mut() = Some(sh);
                    let _ = verif_hooks::sink_take(); // the `ready` message
                }
            })));
            let (w2, sh2, id2, lg2, sent3, fin3, pa2, since2) = (w.clone(), shadow.clone(), idc.clone(), logged.clone(), sent.clone(), finish.clone(), polls_after.clone(), since.clone());
            let lines2 = lines.clone();
            verif_hooks::set_on_polled(Some(Box::new(move |c: &mut Cpu| {
                if *lg2.borrow() || !sent3.load(Ordering::SeqCst) {
                    return;
                }
                if since2.borrow().is_none() {
                    *since2.borrow_mut() = Some(std::time::Instant::now());
                }
                // the last line of every sequence is a sentinel store: lines travel through ONE ordered channel, so when
                // its effect is there every earlier line has been processed (no timing assumption); a receive path that
                // loses lines never shows the sentinel - the sequence is then recorded as it stands after 25 s
                let _ = pa2.fetch_add(1, Ordering::SeqCst);
                let seen = c.bus.read(0xffcf7e).map(|b| b == sentinel).unwrap_or(false);
                if !seen && since2.borrow().map(|t| t.elapsed().as_secs() < 25).unwrap_or(true) {
                    return;
                }
                // everything sent has been received and processed by now: one poll event for the whole sequence
                let msgs: Vec<Vec<u8>> = verif_hooks::sink_take().into_iter().map(|s| s.into_bytes()).collect();
                let wr = sh2.borrow_mut().as_mut().map(|s| s.diff(c)).unwrap_or_default();
                let (dd, dr) = readbacks(c);
                let mut id = id2.borrow_mut();
                let _ = writeln!(w2.borrow_mut(), "{{\"k\":\"poll\",\"id\":{},\"lines\":{},\"msgs\":{},\"wr\":{},\"dd\":{},\"dr\":{},\"sum\":{}}}",
                                 *id, j_lines(&lines2), j_msgs(&msgs), j_pairs(&wr), j_bytes(&dd), j_bytes(&dr), sum_pair(c.vh_state_sum()));
                *id += 1;
                *lg2.borrow_mut() = true;
                fin3.store(true, Ordering::SeqCst);
            })));
            let r = std::panic::catch_unwind(std::panic::AssertUnwindSafe(|| cpu.run()));
            verif_hooks::set_on_poll(None);
            verif_hooks::set_on_polled(None);
            finish.store(true, Ordering::SeqCst);
            let res = match &r {
                Ok(Ok(())) => "ok",
                Ok(Err(_)) => "err",
                Err(_) => "panic",
            };
            let msgs: Vec<Vec<u8>> = verif_hooks::sink_take().into_iter().map(|s| s.into_bytes()).collect();
            let wr = shadow.borrow_mut().as_mut().map(|s| s.diff(&cpu)).unwrap_or_default();
            let regs = regs_of(&cpu);
            {
                let mut id = idc.borrow_mut();
                let stop = vec!["cmd:stop".to_string()];
                writeln!(w.borrow_mut(), "{{\"k\":\"ret\",\"id\":{},\"res\":\"{}\",\"lines\":{},\"msgs\":{},\"post\":{},\"wr\":{},\"sum\":{},\"note\":\"\"}}",
                         *id, res, j_lines(if *logged.borrow() { &stop } else { lines }), j_msgs(&msgs), j_u32s(&regs.vec19()), j_pairs(&wr), sum_pair(cpu.vh_state_sum()))?;
                *id += 1;
                first_id = *id;
            }
            w.borrow_mut().flush()?;
            cpu.vh_detach_socket();
            drop(cpu);
            let _ = client.join();
            let _ = console_take();
            nh += 1;
            done = true;
            break;
        }
        if !done {
            return Err(anyhow!("no free TCP port found"));
        }
    }
    *emu::setting::ENABLE_WAIT_START.write().unwrap() = false;
    let _ = std::fs::remove_file(&elf_path);
    eprintln!("{{\"driver\":\"tcp-lines\",\"events\":{},\"histories\":{}}}", first_id, nh);
    Ok(())
}
