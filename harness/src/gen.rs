//! Case generation: instantiate the exported form table into concrete single-step cases.
//! Everything here is INPUT preparation (which encodings, registers, addresses, values to try);
//! nothing computes an expected result.
use crate::forms::{Desc, Form};
use crate::machine::*;
use crate::rng::Rng;

pub const B8: [u32; 8] = [0x00, 0x01, 0x0f, 0x10, 0x7f, 0x80, 0xfe, 0xff];
pub const B16: [u32; 12] = [0x0000, 0x0001, 0x00ff, 0x0100, 0x0fff, 0x1000, 0x7fff, 0x8000, 0x8001, 0xf000, 0xfffe, 0xffff];
pub const B32: [u32; 14] = [
    0, 1, 0x0000ffff, 0x00010000, 0x0fffffff, 0x10000000, 0x7fffffff, 0x80000000, 0x80000001, 0xf0000000, 0xfffffffe, 0xffffffff,
    0x7ffffffe, 0x00008000,
];

/// bus-controller settings <<ABWCR, ASTCR, WCRH, WCRL, DRCRA>>
pub const BUS_INIT: [u8; 5] = [0xff, 0xfb, 0xff, 0xcf, 0xe0]; // what Cpu::run programs
pub const BUS_SETTINGS: [[u8; 5]; 6] = [
    [0xff, 0xfb, 0xff, 0xcf, 0xe0],
    [0x00, 0x00, 0x00, 0x00, 0x00], // all 16-bit 2-state, no DRAM
    [0xfb, 0xff, 0xff, 0xdf, 0x20], // area 2: 16-bit DRAM 1 wait; others 8-bit 3-state 3 waits
    [0x05, 0xfa, 0x55, 0xa6, 0x20], // area 0 8-bit 2-state; area 2 8-bit DRAM 2 waits
    [0xfe, 0x01, 0xaa, 0x67, 0x00], // area 0: 16-bit 3-state 3 waits; area 2 8-bit 2-state (no DRAM)
    [0x04, 0xff, 0x00, 0x10, 0xe0], // area 2 8-bit DRAM 1 wait; area 0 16-bit 3-state 0 wait
];

#[derive(Clone, Debug)]
pub struct Case {
    pub drv: String,
    pub row: String,
    pub regs: Regs,
    pub pokes: Vec<(u32, u8)>,
    pub pend: Vec<u8>,
}

pub fn vals(sz: u32, j: usize, rng: &mut Rng) -> u32 {
    match sz {
        1 => {
            if j < B8.len() {
                B8[j]
            } else {
                rng.u8() as u32
            }
        }
        2 => {
            if j < B16.len() {
                B16[j]
            } else {
                rng.u16() as u32
            }
        }
        _ => {
            if j < B32.len() {
                B32[j]
            } else if j < B32.len() + 64 {
                // walking ones / zeros
                let k = (j - B32.len()) as u32;
                if k < 32 {
                    1u32 << k
                } else {
                    !(1u32 << (k - 32))
                }
            } else {
                rng.u32()
            }
        }
    }
}
pub fn nvals(sz: u32) -> usize {
    match sz {
        1 => B8.len(),
        2 => B16.len(),
        _ => B32.len(),
    }
}

/// Address pools (operand placement).  Alignment is applied by the caller.
#[derive(Clone, Copy, PartialEq, Eq, Debug)]
pub enum Pool {
    /// mapped plain memory: on-chip RAM, DRAM, vector area (first/last/interior)
    Plain,
    /// Plain + addresses at / beyond region edges and in holes (expected errors included)
    Edges,
}

pub fn pick_addr(pool: Pool, sz: u32, rng: &mut Rng) -> u32 {
    let al = |a: u32| if sz > 1 { a & !1 } else { a };
    let r = rng.below(100);
    let a = match pool {
        Pool::Plain | Pool::Edges if r < 12 => RAM_LO + rng.below(8) as u32,
        Pool::Plain | Pool::Edges if r < 24 => RAM_HI - 7 + rng.below(8 - sz as usize + 1) as u32,
        Pool::Plain | Pool::Edges if r < 40 => RAM_LO + rng.below((RAM_HI - RAM_LO - 8) as usize) as u32,
        Pool::Plain | Pool::Edges if r < 50 => DRAM_LO + rng.below(8) as u32,
        Pool::Plain | Pool::Edges if r < 60 => DRAM_HI - 7 + rng.below(8 - sz as usize + 1) as u32,
        Pool::Plain | Pool::Edges if r < 78 => DRAM_LO + rng.below((DRAM_HI - DRAM_LO - 8) as usize) as u32,
        Pool::Plain | Pool::Edges if r < 84 => VEC_LO + rng.below(8) as u32,
        Pool::Plain | Pool::Edges if r < 90 => VEC_HI - 7 + rng.below(8 - sz as usize + 1) as u32,
        Pool::Plain => VEC_LO + rng.below(248) as u32,
        Pool::Edges => {
            // region edges +-4, holes, above 2^24 is impossible for a 24-bit EA
            let edges = [VEC_HI, DRAM_LO, DRAM_HI, IO1_LO, IO1_HI, RAM_LO, IO2_HI, 0xffffff, 0x200000, 0x7fffff, 0xfee100];
            let e = rng.pick(&edges);
            e.wrapping_add(rng.below(9) as u32).wrapping_sub(4) & 0xffffff
        }
    };
    let a = al(a);
    // keep whole operand inside the same region for Plain
    if pool == Pool::Plain {
        let last = a + sz - 1;
        if Machine::locate(a).map(|x| x.0) != Machine::locate(last).map(|x| x.0) || Machine::locate(a).is_none() {
            return al(RAM_LO + 0x100 + rng.below(0x1000) as u32);
        }
    }
    a
}

/// @aa:8 page addresses (H'FFFF00-H'FFFFFF): on-chip RAM tail, I/O registers (ports / timer excluded
/// unless `io` is set), unmapped tail
pub fn pick_abs8(sz: u32, io: bool, rng: &mut Rng) -> u32 {
    loop {
        let a = 0xffff00 + rng.below(256) as u32;
        let a = if sz > 1 { a & !1 } else { a };
        let port = (0xffffd0..=0xffffda).contains(&a);
        let timer = (0xffff80..=0xffff99).contains(&a);
        if !io && (port || timer) {
            continue;
        }
        return a;
    }
}
pub fn pick_abs16(sz: u32, rng: &mut Rng) -> u32 {
    let r = rng.below(10);
    let a = if r < 3 {
        rng.below(256) as u32 // vector area
    } else if r < 8 {
        RAM_LO + rng.below((RAM_HI - RAM_LO - 4) as usize) as u32
    } else if r < 9 {
        0x0100 + rng.below(0x7e00) as u32 // unmapped low
    } else {
        0xff8000 + rng.below(0x3f20) as u32 // unmapped below RAM
    };
    if sz > 1 {
        a & !1
    } else {
        a
    }
}

pub struct Builder<'f> {
    pub f: &'f Form,
    pub words: Vec<u16>,
    pub regs: Regs,
    pub pokes: Vec<(u32, u8)>,
}

impl<'f> Builder<'f> {
    pub fn new(f: &'f Form, rng: &mut Rng) -> Self {
        let words = f.w.iter().map(|&(m, v)| v | (rng.u16() & !m)).collect();
        let mut regs = Regs::default();
        for i in 0..8 {
            regs.er[i] = rng.u32();
        }
        regs.ccr = rng.u8();
        Builder { f, words, regs, pokes: Vec::new() }
    }
    pub fn nib_allowed(&self, wi: usize, p: usize) -> Vec<u8> {
        let sh = 4 * (4 - p);
        let (m, v) = self.f.w[wi - 1];
        let (m, v) = (((m >> sh) & 0xf) as u8, ((v >> sh) & 0xf) as u8);
        (0..16u8).filter(|n| n & m == v).collect()
    }
    pub fn set_nib(&mut self, wi: usize, p: usize, n: u8) {
        let sh = 4 * (4 - p);
        self.words[wi - 1] = (self.words[wi - 1] & !(0xf << sh)) | ((n as u16) << sh);
    }
    pub fn nib(&self, wi: usize, p: usize) -> u8 {
        ((self.words[wi - 1] >> (4 * (4 - p))) & 0xf) as u8
    }
    pub fn set_view(&mut self, sz: u32, field: u8, val: u32) {
        let f = field as usize;
        match sz {
            1 => {
                if f < 8 {
                    self.regs.er[f] = (self.regs.er[f] & 0xffff00ff) | ((val & 0xff) << 8);
                } else {
                    self.regs.er[f - 8] = (self.regs.er[f - 8] & 0xffffff00) | (val & 0xff);
                }
            }
            2 => {
                if f < 8 {
                    self.regs.er[f] = (self.regs.er[f] & 0xffff0000) | (val & 0xffff);
                } else {
                    self.regs.er[f - 8] = (self.regs.er[f - 8] & 0x0000ffff) | ((val & 0xffff) << 16);
                }
            }
            _ => self.regs.er[f % 8] = val,
        }
    }
    /// operand size of a register descriptor
    pub fn desc_sz(&self, d: &Desc) -> u32 {
        match d.k.as_str() {
            "RW" => 2,
            "RL" => 4,
            "RB8" | "BR" => 1,
            _ => self.f.sz,
        }
    }
    pub fn poke_be(&mut self, a: u32, sz: u32, v: u32) {
        for i in 0..sz {
            let b = (v >> (8 * (sz - 1 - i))) & 0xff;
            self.pokes.push((a.wrapping_add(i), b as u8));
        }
    }
    /// make the memory operand described by d address `ea` (24 bit); `upper` = top byte of the register
    pub fn place_mem(&mut self, d: &Desc, sz: u32, ea: u32, upper: u8, rng: &mut Rng) {
        let up = (upper as u32) << 24;
        match d.k.as_str() {
            "IND" | "INC" => {
                let n = self.nib(d.wi, d.p) % 8;
                self.regs.er[n as usize] = up | ea;
            }
            "DEC" => {
                let n = self.nib(d.wi, d.p) % 8;
                self.regs.er[n as usize] = (up | ea).wrapping_add(sz);
            }
            "D16" => {
                let n = self.nib(d.wi, d.p) % 8;
                let disp: u16 = match rng.below(8) {
                    0 => 0,
                    1 => 0x7ffe,
                    2 => 0x8000,
                    3 => 0xfffe,
                    4 => 2,
                    _ => rng.u16() & !1,
                };
                let base = ea.wrapping_sub(disp as i16 as i32 as u32) & 0xffffff;
                self.regs.er[n as usize] = up | base;
                self.words[d.xi - 1] = disp;
            }
            "D24" => {
                let n = self.nib(d.wi, d.p) % 8;
                let disp: u32 = match rng.below(8) {
                    0 => 0,
                    1 => 0x7ffffe,
                    2 => 0x800000,
                    3 => 0xfffffe,
                    4 => 0x010000,
                    _ => rng.u32() & 0xfffffe,
                };
                let base = ea.wrapping_sub(disp) & 0xffffff;
                self.regs.er[n as usize] = up | base;
                self.words[d.xi - 1] = (self.words[d.xi - 1] & 0xff00) | ((disp >> 16) as u16);
                self.words[d.xi] = disp as u16;
            }
            "A8" => {
                self.words[d.wi - 1] = (self.words[d.wi - 1] & 0xff00) | (ea & 0xff) as u16;
            }
            "A16" => {
                self.words[d.xi - 1] = ea as u16;
            }
            "A24" => {
                self.words[d.xi - 1] = (self.words[d.xi - 1] & 0xff00) | ((ea >> 16) & 0xff) as u16;
                self.words[d.xi] = ea as u16;
            }
            _ => {}
        }
    }
    pub fn set_imm(&mut self, d: &Desc, v: u32) {
        match d.k.as_str() {
            "I8" => self.words[0] = (self.words[0] & 0xff00) | (v & 0xff) as u16,
            "I16" => self.words[d.xi - 1] = v as u16,
            "I32" => {
                self.words[d.xi - 1] = (v >> 16) as u16;
                self.words[d.xi] = v as u16;
            }
            _ => {}
        }
    }
    pub fn poke_bus(&mut self, s: &[u8; 5]) {
        self.pokes.push((ABWCR, s[0]));
        self.pokes.push((ASTCR, s[1]));
        self.pokes.push((WCRH, s[2]));
        self.pokes.push((WCRL, s[3]));
        self.pokes.push((DRCRA, s[4]));
    }
    pub fn finish(mut self, drv: &str, pc: u32) -> Case {
        self.regs.pc = pc;
        for (i, w) in self.words.iter().enumerate() {
            let a = pc.wrapping_add(2 * i as u32);
            self.pokes.push((a, (w >> 8) as u8));
            self.pokes.push((a.wrapping_add(1), *w as u8));
        }
        Case { drv: drv.to_string(), row: self.f.id.clone(), regs: self.regs, pokes: self.pokes, pend: vec![] }
    }
}

#[derive(Clone)]
pub struct Knobs {
    pub drv: String,
    pub uppers: Vec<u8>,
    pub pool: Pool,
    pub io8: bool,
    pub pcs: Vec<u32>,
    pub bus: Vec<[u8; 5]>,
    pub avoid_overlap: bool,
    pub odd_targets: bool,
    pub odd_ea: bool,
}

pub fn pcs_default() -> Vec<u32> {
    vec![0xffc000, 0xffe100, 0x400000, 0x41a000, 0x5ff000, RAM_LO, 0xffd7f0]
}

fn mem_addr_for(d: &Desc, sz: u32, k: &Knobs, rng: &mut Rng) -> u32 {
    match d.k.as_str() {
        "A8" => pick_abs8(sz, k.io8, rng),
        "A16" => pick_abs16(sz, rng),
        _ => pick_addr(k.pool, sz, rng),
    }
}

/// Generic instantiation of one form; i is the running case number for this form (drives the
/// systematic part: register numbers, CCR, boundary values), rng the rest.
/// Case numbers from GRID_BASE on select the SYSTEMATIC value grid of the arithmetic / logic / shift rows:
/// g = i - GRID_BASE, destination operand pattern g % 256, source operand pattern g / 256.  Byte operands: the
/// pattern is the value itself (all 256); word operands: four nibbles, long operands: four bytes, each taken from
/// a 4-element set by two bits of the pattern (so every mix of low / high / sign-boundary digits occurs, not
/// just the boundary values of the whole word).
pub const GRID_BASE: usize = 1 << 24;
pub const GRID_SRC_QUICK: [u32; 24] = [0x00, 0x01, 0x02, 0x07, 0x08, 0x0f, 0x10, 0x11, 0x1f, 0x33, 0x3c, 0x55, 0x5a, 0x66, 0x7f, 0x80, 0x81, 0x99, 0xa5, 0xaa, 0xc3, 0xf0, 0xfe, 0xff];
pub fn grid_value(sz: u32, pat: u32) -> u32 {
    match sz {
        1 => pat & 0xff,
        2 => {
            let d = [0x0u32, 0x7, 0x8, 0xf];
            (0..4).fold(0, |acc, n| acc | (d[((pat >> (2 * n)) & 3) as usize] << (4 * n)))
        }
        _ => {
            let d = [0x00u32, 0x7f, 0x80, 0xff];
            (0..4).fold(0, |acc, n| acc | (d[((pat >> (2 * n)) & 3) as usize] << (8 * n)))
        }
    }
}

pub fn gen_generic(f: &Form, i: usize, k: &Knobs, rng: &mut Rng) -> Case {
    let grid: Option<(u32, u32)> = if i >= GRID_BASE { Some((((i - GRID_BASE) % 256) as u32, ((i - GRID_BASE) / 256) as u32)) } else { None };
    let i = if i >= GRID_BASE { i - GRID_BASE } else { i };
    let mut b = Builder::new(f, rng);
    let sz = f.sz;
    // --- register / bit-number nibbles: systematic over the first |A| x |B| cases
    let la = if f.a.has_nib() { b.nib_allowed(f.a.wi, f.a.p) } else { vec![] };
    let lb = if f.b.has_nib() { b.nib_allowed(f.b.wi, f.b.p) } else { vec![] };
    let na = la.len().max(1);
    let nb = lb.len().max(1);
    let sys = i < na * nb * 2;
    if !la.is_empty() {
        let n = if sys { la[i % na] } else { rng.pick(&la) };
        b.set_nib(f.a.wi, f.a.p, n);
    }
    if !lb.is_empty() {
        let n = if sys { lb[(i / na) % nb] } else { rng.pick(&lb) };
        b.set_nib(f.b.wi, f.b.p, n);
    }
    b.regs.ccr = if grid.is_some() { ((i as u64).wrapping_mul(0x9e3779b97f4a7c15) >> 40) as u8 } else { ((i * 97 + 13) % 256) as u8 };
    let upper = k.uppers[i % k.uppers.len()];

    // --- memory operand
    let md = if f.a.is_mem() { Some(f.a.clone()) } else if f.b.is_mem() { Some(f.b.clone()) } else { None };
    let other = if f.a.is_mem() { f.b.clone() } else { f.a.clone() };
    let mut ea = 0u32;
    if let Some(d) = &md {
        if k.avoid_overlap && (d.k == "INC" || d.k == "DEC") && other.has_nib() {
            // data register must not overlap the address register
            let ar = b.nib(d.wi, d.p) % 8;
            let mut dn = b.nib(other.wi, other.p);
            if dn % 8 == ar {
                let allowed = b.nib_allowed(other.wi, other.p);
                for cand in allowed {
                    if cand % 8 != ar {
                        dn = cand;
                        break;
                    }
                }
                b.set_nib(other.wi, other.p, dn);
            }
        }
        ea = mem_addr_for(d, sz.max(1), k, rng);
        if k.odd_ea && sz > 1 && rng.chance(1, 3) {
            ea |= 1; // word / long operands at odd addresses (C09: still the consecutive bytes)
        }
        b.place_mem(d, sz.max(1), ea, upper, rng);
    }
    let j = i % 61; // value index: boundary values first, then random
    let jb = (i / 7) % 47;
    // --- values
    let mn = f.mn.as_str();
    match mn {
        "MOV" => {
            let v = vals(sz, j % (nvals(sz) + 6), rng);
            if f.a.is_mem() {
                b.poke_be(ea, sz, v);
            } else if f.a.k == "R" {
                let fld = b.nib(f.a.wi, f.a.p);
                let overlap = md.as_ref().map(|d| d.has_nib() && b.nib(d.wi, d.p) % 8 == fld % 8).unwrap_or(false);
                if !overlap {
                    b.set_view(sz, fld, v);
                }
            } else {
                b.set_imm(&f.a.clone(), v);
            }
        }
        "ADD" | "SUB" | "CMP" | "ADDX" | "AND" | "OR" | "XOR" | "MULXU" | "DIVXU" => {
            let dsz = b.desc_sz(&f.b);
            let ssz = b.desc_sz(&f.a);
            let mut va = vals(dsz, j % (nvals(dsz) + 8), rng);
            let mut vb = vals(ssz, jb % (nvals(ssz) + 8), rng);
            match rng.below(12) {
                0 => vb = va,
                1 => vb = !va,
                2 => vb = va.wrapping_neg(),
                3 => vb = (!va).wrapping_add(2),
                _ => {}
            }
            if let Some((pa, pb)) = grid {
                va = grid_value(dsz, pa);
                vb = grid_value(ssz, pb);
            }
            if mn == "DIVXU" {
                // property domain: non-zero divisor, quotient fits; aim there most of the time
                if rng.chance(9, 10) {
                    let lim = if ssz == 1 { 0xffu32 } else { 0xffff };
                    let d = (vb & lim).max(1);
                    let q = rng.u32() & lim;
                    let r = rng.u32() % d;
                    let dividend = (d as u64 * q as u64 + r as u64) as u32;
                    vb = d;
                    let fld = b.nib(f.b.wi, f.b.p);
                    b.set_view(dsz, fld, dividend);
                } else {
                    let fld = b.nib(f.b.wi, f.b.p);
                    b.set_view(dsz, fld, va);
                }
            } else {
                let fld = b.nib(f.b.wi, f.b.p);
                b.set_view(dsz, fld, va);
            }
            if f.a.has_nib() {
                let fld = b.nib(f.a.wi, f.a.p);
                b.set_view(ssz, fld, vb);
            } else {
                b.set_imm(&f.a.clone(), vb);
            }
        }
        "NEG" | "INC" | "DEC" | "NOT" | "EXTU" | "SHAL" | "SHAR" | "SHLL" | "SHLR" | "ROTL" | "ROTR" | "ROTXL" | "ROTXR" | "ADDS" | "SUBS" => {
            let near = [0u32, 1, 2, 3];
            let mut v = vals(sz, j % (nvals(sz) + 10), rng);
            if rng.chance(1, 6) {
                let base: u32 = match sz {
                    1 => rng.pick(&[0x7f, 0x80, 0xff, 0x00]),
                    2 => rng.pick(&[0x7fff, 0x8000, 0xffff, 0x0000]),
                    _ => rng.pick(&[0x7fffffff, 0x80000000, 0xffffffff, 0x00000000, 0x00ffffff, 0x01000000]),
                };
                v = if rng.chance(1, 2) { base.wrapping_add(rng.pick(&near)) } else { base.wrapping_sub(rng.pick(&near)) };
            }
            if let Some((pa, _)) = grid {
                v = grid_value(sz, pa);
            }
            let fld = b.nib(f.b.wi, f.b.p);
            b.set_view(sz, fld, v);
        }
        "BSET" | "BCLR" | "BNOT" | "BTST" | "BST" | "BIST" | "BLD" | "BILD" | "BAND" | "BIAND" | "BOR" | "BIOR" | "BXOR" | "BIXOR" => {
            let v = if j < B8.len() { B8[j] } else { rng.u8() as u32 };
            if f.a.k == "BR" {
                let fld = b.nib(f.a.wi, f.a.p);
                b.set_view(1, fld, rng.u8() as u32);
            }
            if f.b.is_mem() {
                b.poke_be(ea, 1, v);
            } else {
                let fld = b.nib(f.b.wi, f.b.p);
                // keep the bit-number register if it is the same byte register
                let same = f.a.k == "BR" && b.nib(f.a.wi, f.a.p) == fld;
                if !same {
                    b.set_view(1, fld, v);
                }
            }
        }
        _ => {}
    }
    // --- control transfer set-up
    let even24 = |rng: &mut Rng, odd: bool| -> u32 {
        let t = match rng.below(6) {
            0 => 0xffc000 + (rng.u32() & 0x1ffe),
            1 => 0x400000 + (rng.u32() & 0x1ffffe),
            2 => rng.u32() & 0xfe,
            _ => rng.u32() & 0xfffffe,
        };
        if odd && rng.chance(1, 20) {
            t | 1
        } else {
            t
        }
    };
    // stack pointers are even; one in three is 2 mod 4 (long frames need word alignment only)
    let stack = |rng: &mut Rng, pool: Pool| -> u32 {
        let a = pick_addr(pool, 4, rng) & !3;
        if rng.chance(1, 3) { a | 2 } else { a }
    };
    match mn {
        "BCC" => {
            // condition and CCR systematic: 16 x 256
            let cc = (i % 16) as u8;
            b.set_nib(1, f.x as usize, cc);
            b.regs.ccr = ((i / 16) % 256) as u8;
            let dj = i / 4096;
            if f.a.k == "PD8" {
                let d = ((dj * 2 + (i % 7) * 36) % 256) as u16 & if k.odd_targets && rng.chance(1, 16) { 0xff } else { 0xfe };
                b.words[0] = (b.words[0] & 0xff00) | d;
            } else {
                let d = match (i / 3) % 9 {
                    0 => 0,
                    1 => 0x7ffe,
                    2 => 0x8000,
                    3 => 0xfffe,
                    4 => 2,
                    5 => 0x0100,
                    6 => 0xff00,
                    _ => rng.u16() & !1,
                };
                b.words[f.a.xi - 1] = d;
            }
        }
        "JMP" | "JSR" | "BSR" => {
            let sp = stack(rng, k.pool);
            b.regs.er[7] = ((upper as u32) << 24) | sp;
            match f.a.k.as_str() {
                "IND" => {
                    let n = (b.nib(f.a.wi, f.a.p) % 8) as usize;
                    if !(mn == "JSR" && n == 7) {
                        b.regs.er[n] = ((upper as u32) << 24) | even24(rng, k.odd_targets);
                    }
                }
                "J24" => {
                    let t = even24(rng, k.odd_targets);
                    b.words[0] = (b.words[0] & 0xff00) | (t >> 16) as u16;
                    b.words[1] = t as u16;
                }
                "VEC" => {
                    let aa = (rng.below(127) * 2) as u32;
                    b.words[0] = (b.words[0] & 0xff00) | aa as u16;
                    let t = even24(rng, k.odd_targets);
                    b.poke_be(aa, 4, ((rng.u8() as u32) << 24) | t);
                }
                "PD8" => {
                    let d = (rng.u8() & 0xfe) as u16 | if k.odd_targets && rng.chance(1, 20) { 1 } else { 0 };
                    b.words[0] = (b.words[0] & 0xff00) | d;
                }
                "PD16" => {
                    let d = match rng.below(8) {
                        0 => 0,
                        1 => 0x7ffe,
                        2 => 0x8000,
                        3 => 0xfffe,
                        _ => rng.u16() & !1,
                    };
                    b.words[f.a.xi - 1] = d;
                }
                _ => {}
            }
        }
        "RTS" | "RTE" => {
            let sp = stack(rng, k.pool);
            b.regs.er[7] = ((upper as u32) << 24) | sp;
            let t = even24(rng, k.odd_targets);
            b.poke_be(sp, 4, ((rng.u8() as u32) << 24) | t);
        }
        "TRAPA" => {
            let n = 1 + (i % 3) as u8;
            b.set_nib(1, 3, n);
            let sp = stack(rng, k.pool);
            b.regs.er[7] = ((upper as u32) << 24) | sp;
            let t = even24(rng, false);
            b.poke_be(0x20 + 4 * n as u32, 4, ((rng.u8() as u32) << 24) | t);
        }
        _ => {}
    }
    let bus = k.bus[i % k.bus.len()];
    b.poke_bus(&bus);
    let pc = k.pcs[(i / 3) % k.pcs.len()] + ((rng.below(64) * 2) as u32);
    b.finish(&k.drv, pc)
}

/// A case from explicit instruction words (decode sweeps, panic sweeps).
pub fn case_from_words(drv: &str, row: &str, words: &[u16], regs: Regs, pc: u32, extra: &[(u32, u8)]) -> Case {
    let mut pokes = extra.to_vec();
    for (i, w) in words.iter().enumerate() {
        let a = pc.wrapping_add(2 * i as u32);
        pokes.push((a, (w >> 8) as u8));
        pokes.push((a.wrapping_add(1), *w as u8));
    }
    let mut regs = regs;
    regs.pc = pc;
    Case { drv: drv.to_string(), row: row.to_string(), regs, pokes, pend: vec![] }
}

/// "benign" register file: every ER points into mapped plain memory (even), ER7 a stack in RAM
pub fn benign_regs(rng: &mut Rng) -> Regs {
    let mut r = Regs::default();
    for i in 0..8 {
        r.er[i] = match rng.below(3) {
            0 => 0xffc100 + (rng.u32() & 0x1ffc),
            1 => 0x410000 + (rng.u32() & 0xffffc),
            _ => 0xffe000 + (rng.u32() & 0xffc),
        };
    }
    r.er[7] = 0xffd000 + (rng.u32() & 0xffc);
    r.ccr = rng.u8();
    r
}
