//! ELF32 big-endian WRITER and the `elf-load` driver (C11, C12).
//! The writer serialises an abstract description (program headers, segment contents, section
//! headers, symbols); the description - not the file - is what TLC reasons about, so the writer is
//! trusted only for encoding.  The real elf::load is then run on the file and its effect logged.
use crate::machine::*;
use crate::rng::{hash_str, Rng};
use crate::Args;
use anyhow::{anyhow, Result};
use std::io::{BufWriter, Write};

#[derive(Clone, Debug)]
pub struct Ph {
    pub ty: u32,
    pub off: u32,
    pub va: u32,
    pub pa: u32,
    pub fsz: u32,
    pub msz: u32,
}
#[derive(Clone, Debug)]
pub struct Sh {
    pub name: String,
    pub ty: u32,
    pub addr: u32,
    pub off: u32,
    pub size: u32,
    pub link: u32,
    pub entsize: u32,
}
#[derive(Clone, Debug, Default)]
pub struct ElfDesc {
    pub ph: Vec<Ph>,
    pub seg: Vec<Vec<u8>>,
    pub sh: Vec<Sh>,
    pub sym: Vec<(String, u32)>,
    pub args: Vec<u8>,
}

fn be16(v: &mut Vec<u8>, x: u16) {
    v.extend_from_slice(&x.to_be_bytes());
}
fn be32(v: &mut Vec<u8>, x: u32) {
    v.extend_from_slice(&x.to_be_bytes());
}

/// Serialise.  File layout: header | program headers | (gap) | segment blobs at their offsets |
/// string tables, symbol table | section headers.  Section offsets in `d.sh` for the tables are
/// filled in here; everything the loader reads is therefore derived from `d`.
pub fn write_elf(d: &mut ElfDesc, rng: &mut Rng) -> Vec<u8> {
    let phoff = 52u32;
    let mut end = phoff + 32 * d.ph.len() as u32;
    for p in &d.ph {
        if p.ty == 1 {
            end = end.max(p.off + p.fsz);
        }
    }
    let mut f = vec![0u8; end as usize];
    // filler outside the blobs: non-zero so that reading from a wrong offset shows
    for b in f.iter_mut().skip((phoff + 32 * d.ph.len() as u32) as usize) {
        *b = 0xee;
    }
    for (i, p) in d.ph.iter().enumerate() {
        if p.ty == 1 {
            f[p.off as usize..(p.off + p.fsz) as usize].copy_from_slice(&d.seg[i]);
        }
    }
    // section name table
    let mut shstr: Vec<u8> = vec![0];
    let mut name_idx: Vec<u32> = Vec::new();
    // names are tail-merged the way GNU ld does it: a name that is the suffix of another section's name is not
    // stored again, its sh_name points into the longer string (".got" inside ".rela.got")
    let names: Vec<String> = d.sh.iter().map(|s| s.name.clone()).collect();
    let mut stored: std::collections::HashMap<String, u32> = std::collections::HashMap::new();
    for s in &d.sh {
        if s.name.is_empty() {
            name_idx.push(0);
            continue;
        }
        if let Some(host) = names.iter().find(|n| n.len() > s.name.len() && n.ends_with(&s.name)) {
            let base = match stored.get(host) {
                Some(b) => *b,
                None => {
                    let b = shstr.len() as u32;
                    shstr.extend_from_slice(host.as_bytes());
                    shstr.push(0);
                    stored.insert(host.clone(), b);
                    b
                }
            };
            name_idx.push(base + (host.len() - s.name.len()) as u32);
            continue;
        }
        let b = match stored.get(&s.name) {
            Some(b) => *b,
            None => {
                let b = shstr.len() as u32;
                shstr.extend_from_slice(s.name.as_bytes());
                shstr.push(0);
                stored.insert(s.name.clone(), b);
                b
            }
        };
        name_idx.push(b);
    }
    // symbol string table + symbol table
    let mut strtab: Vec<u8> = vec![0];
    let mut symtab: Vec<u8> = Vec::new();
    // bindings as a linker lays them out: STB_LOCAL symbols first, sh_info = index of the first non-local one;
    // ___exit may be local (e.g. after objcopy --localize-symbol), global or weak
    let nlocal = rng.below(d.sym.len() + 1);
    for (si, (name, value)) in d.sym.iter().enumerate() {
        let ni = strtab.len() as u32;
        strtab.extend_from_slice(name.as_bytes());
        strtab.push(0);
        be32(&mut symtab, ni);
        be32(&mut symtab, *value);
        be32(&mut symtab, rng.u32() & 0xff);
        let bind: u8 = if si < nlocal { 0 } else if rng.chance(1, 4) { 2 } else { 1 };
        symtab.push((bind << 4) | rng.below(3) as u8);
        symtab.push(0);
        be16(&mut symtab, 1);
    }
    let mut place = |f: &mut Vec<u8>, blob: &[u8], rng: &mut Rng| -> u32 {
        let pad = rng.below(7);
        for _ in 0..pad {
            f.push(0xdd);
        }
        let off = f.len() as u32;
        f.extend_from_slice(blob);
        off
    };
    let off_shstr = place(&mut f, &shstr, rng);
    let off_str = place(&mut f, &strtab, rng);
    let off_sym = place(&mut f, &symtab, rng);
    let mut shstrndx = 0u16;
    for (i, s) in d.sh.iter_mut().enumerate() {
        match s.name.as_str() {
            ".shstrtab" => {
                s.off = off_shstr;
                s.size = shstr.len() as u32;
                shstrndx = i as u16;
            }
            ".strtab" => {
                s.off = off_str;
                s.size = strtab.len() as u32;
            }
            ".symtab" => {
                s.off = off_sym;
                s.size = symtab.len() as u32;
                s.entsize = 16;
            }
            _ => {}
        }
    }
    let strtab_idx = d.sh.iter().position(|s| s.name == ".strtab").unwrap_or(0) as u32;
    for s in d.sh.iter_mut() {
        if s.name == ".symtab" {
            s.link = strtab_idx;
        }
    }
    while f.len() % 4 != 0 {
        f.push(0);
    }
    let shoff = f.len() as u32;
    for (i, s) in d.sh.iter().enumerate() {
        be32(&mut f, name_idx[i]);
        be32(&mut f, s.ty);
        be32(&mut f, 0);
        be32(&mut f, s.addr);
        be32(&mut f, s.off);
        be32(&mut f, s.size);
        be32(&mut f, s.link);
        be32(&mut f, if s.name == ".symtab" { nlocal as u32 } else { 0 });
        be32(&mut f, 1);
        be32(&mut f, s.entsize);
    }
    // header
    let mut h: Vec<u8> = vec![0x7f, b'E', b'L', b'F', 1, 2, 1, 0, 0, 0, 0, 0, 0, 0, 0, 0];
    be16(&mut h, 2);
    be16(&mut h, 46); // EM_H8_300
    be32(&mut h, 1);
    be32(&mut h, 0x100);
    be32(&mut h, phoff);
    be32(&mut h, shoff);
    be32(&mut h, 0x810000);
    be16(&mut h, 52);
    be16(&mut h, 32);
    be16(&mut h, d.ph.len() as u16);
    be16(&mut h, 40);
    be16(&mut h, d.sh.len() as u16);
    be16(&mut h, shstrndx);
    f[0..52].copy_from_slice(&h);
    for (i, p) in d.ph.iter().enumerate() {
        let mut b: Vec<u8> = Vec::new();
        be32(&mut b, p.ty);
        be32(&mut b, p.off);
        be32(&mut b, p.va);
        be32(&mut b, p.pa);
        be32(&mut b, p.fsz);
        be32(&mut b, p.msz);
        be32(&mut b, 7);
        be32(&mut b, 4);
        let o = (phoff + 32 * i as u32) as usize;
        f[o..o + 32].copy_from_slice(&b);
    }
    f
}

fn rand_name(rng: &mut Rng, n: usize) -> String {
    const CH: &[u8] = b"abcdefghijklmnopqrstuvwxyzABCDEFGHIJKLMNOPQRSTUVWXYZ0123456789_$.";
    (0..n.max(1)).map(|_| CH[rng.below(CH.len())] as char).collect()
}

pub struct GenOpts {
    pub max_seg: u32,
    pub max_got: u32,
    pub max_syms: usize,
    pub max_words: usize,
    pub max_wordlen: usize,
}

/// A random structurally valid description inside the quantifier range of C11/C12.
pub fn gen_desc(k: usize, o: &GenOpts, rng: &mut Rng) -> ElfDesc {
    let mut d = ElfDesc::default();
    let nload = 1 + rng.below(4);
    // --- PT_LOAD segments in ascending, non-overlapping address order (gaps 0..)
    let mut va = if rng.chance(1, 3) { 0 } else { (rng.below(64) * 4) as u32 };
    let mut loads: Vec<Ph> = Vec::new();
    let mut blobs: Vec<Vec<u8>> = Vec::new();
    for _ in 0..nload {
        let fsz = match rng.below(8) {
            0 => 0,
            1 => 1 + rng.below(4) as u32,
            _ => 1 + rng.below(o.max_seg as usize) as u32,
        };
        let bss = match rng.below(4) {
            0 => 0,
            1 => 1 + rng.below(3) as u32,
            _ => rng.below(64) as u32,
        };
        let data: Vec<u8> = (0..fsz).map(|_| if rng.chance(1, 40) { 0 } else { 1 + rng.below(255) as u8 }).collect();
        loads.push(Ph { ty: 1, off: 0, va, pa: va, fsz, msz: fsz + bss });
        blobs.push(data);
        va += fsz + bss + match rng.below(4) {
            0 => 0, // adjacent segments
            1 => 1,
            _ => rng.below(40) as u32,
        };
    }
    // --- .got inside one segment's file contents (or partly in its bss tail)
    let mut got: Option<(u32, u32)> = None;
    if rng.chance(5, 6) {
        let si = rng.below(nload);
        let seg = &loads[si];
        if seg.msz >= 4 {
            let n = rng.below((o.max_got.min(seg.msz / 4)) as usize + 1) as u32;
            let extra = if rng.chance(1, 8) { rng.below(4) as u32 } else { 0 };
            let size = (4 * n + extra).min(seg.msz);
            let room = seg.msz - size;
            let mut off = rng.below(room as usize + 1) as u32;
            if rng.chance(5, 6) {
                off &= !3;
            }
            got = Some((seg.va + off, size));
            // entry values: boundary cases incl. sums that carry into the top byte
            let vals = [0u32, 1, 0x00be96ff, 0x00be9700, 0xffbe96ff, 0x7fffffff, 0x00ffffff, 0xff000000, 0x0000ffff, 0x00010000];
            for i in 0..(size / 4) {
                let v = if rng.chance(1, 2) { rng.pick(&vals) } else { rng.u32() % 0xffbe9700 };
                for b in 0..4u32 {
                    let pos = (off + 4 * i + b) as usize;
                    if pos < blobs[si].len() {
                        blobs[si][pos] = (v >> (8 * (3 - b))) as u8;
                    }
                }
            }
        }
    }
    // --- now and then one segment's memory size reaches beyond every later segment (a big .bss declared in an
    //     early segment): the image ends at the HIGHEST extent, which is then not the last or highest-starting one
    if nload >= 2 && rng.chance(1, 6) {
        let i = rng.below(nload - 1);
        let top = loads.iter().map(|p| p.va + p.msz).max().unwrap_or(0);
        loads[i].msz = top - loads[i].va + 1 + rng.below(300) as u32;
    }
    // --- the order of the PT_LOAD headers in the table is the linker's (ascending) two times out of three,
    //     otherwise arbitrary (the loaded image does not depend on it)
    if rng.chance(1, 3) {
        for i in (1..loads.len()).rev() {
            let j = rng.below(i + 1);
            loads.swap(i, j);
            blobs.swap(i, j);
        }
    }
    // --- file offsets: blobs in shuffled order behind the program headers, with padding
    let nother = rng.below(3);
    let nph = nload + nother;
    let mut order: Vec<usize> = (0..nload).collect();
    for i in (1..order.len()).rev() {
        order.swap(i, rng.below(i + 1));
    }
    let mut off = 52 + 32 * nph as u32 + rng.below(16) as u32;
    for &i in &order {
        loads[i].off = off;
        off += loads[i].fsz + rng.below(24) as u32;
    }
    // --- interleave non-load program headers at any position (also last)
    let mut ph: Vec<Ph> = loads.clone();
    let mut seg: Vec<Vec<u8>> = blobs.clone();
    for _ in 0..nother {
        let pos = rng.below(ph.len() + 1);
        let ty = rng.pick(&[0u32, 4, 6, 7, 0x6474e551, 0x70000000]);
        ph.insert(pos, Ph { ty, off: rng.below(400) as u32, va: rng.u32() & 0xffff, pa: rng.u32() & 0xffff, fsz: rng.below(300) as u32, msz: rng.below(70000) as u32 });
        seg.insert(pos, Vec::new());
    }
    d.ph = ph;
    d.seg = seg;
    // --- sections (shuffled, index 0 is the null section)
    let stack = match k % 9 {
        0 => 0,
        1 => 1,
        2 => 3,
        3 => 4,
        4 => 5,
        5 => 0xffff,
        6 => 0x10000,
        7 => 0x400,
        _ => rng.below(0x10001) as u32,
    };
    let mut secs: Vec<Sh> = vec![
        Sh { name: ".text".into(), ty: 1, addr: 0, off: 0x100, size: 0x40, link: 0, entsize: 0 },
        Sh { name: ".stack".into(), ty: 8, addr: stack, off: 0, size: rng.below(0x800) as u32, link: 0, entsize: 0 },
        Sh { name: ".symtab".into(), ty: 2, addr: 0, off: 0, size: 0, link: 0, entsize: 16 },
        Sh { name: ".strtab".into(), ty: 3, addr: 0, off: 0, size: 0, link: 0, entsize: 0 },
        Sh { name: ".shstrtab".into(), ty: 3, addr: 0, off: 0, size: 0, link: 0, entsize: 0 },
        Sh { name: ".data".into(), ty: 1, addr: 0x80, off: 0x140, size: 0x10, link: 0, entsize: 0 },
        Sh { name: ".bss".into(), ty: 8, addr: 0x200, off: 0, size: 0x20, link: 0, entsize: 0 },
    ];
    if let Some((a, s)) = got {
        // sh_entsize of .got is whatever the tool chain wrote (0, 4, or something odd): the entries are 32-bit words
        secs.push(Sh { name: ".got".into(), ty: 1, addr: a, off: 0, size: s, link: 0, entsize: rng.pick(&[4u32, 4, 0, 8, 2, 16, 1]) });
    }
    if got.is_some() && rng.chance(1, 3) {
        secs.push(Sh { name: ".rela.got".into(), ty: 4, addr: 0, off: 0x180, size: 0, link: 0, entsize: 12 });
    }
    if rng.chance(1, 4) {
        secs.push(Sh { name: ".user.stack".into(), ty: 8, addr: rng.u32() & 0xfff, off: 0, size: 0x10, link: 0, entsize: 0 });
    }
    for _ in 0..rng.below(3) {
        secs.push(Sh { name: format!(".x{}", rand_name(rng, 3)), ty: 1, addr: rng.u32() & 0xffff, off: 0, size: rng.below(64) as u32, link: 0, entsize: 0 });
    }
    for i in (1..secs.len()).rev() {
        secs.swap(i, rng.below(i + 1));
    }
    d.sh = vec![Sh { name: String::new(), ty: 0, addr: 0, off: 0, size: 0, link: 0, entsize: 0 }];
    d.sh.extend(secs);
    // --- symbols: ___exit first / middle / last
    let nsym = 1 + match k % 5 {
        0 => 0,
        1 => rng.below(3),
        _ => rng.below(o.max_syms),
    };
    let exit_pos = match (k / 5) % 3 {
        0 => 0,
        1 => nsym - 1,
        _ => rng.below(nsym),
    };
    for i in 0..nsym {
        if i == exit_pos {
            d.sym.push(("___exit".to_string(), (rng.u32() & 0xfffe) + if rng.chance(1, 6) { 0x10000 } else { 0 }));
        } else {
            let nl = 1 + rng.below(12);
            let mut name = rand_name(rng, nl);
            if rng.chance(1, 8) {
                // names a symbol table really contains: file names with blanks, non-ASCII text, empty names
                name = rng.pick(&["my prog.c", "\u{30d7}\u{30ed}\u{30b0}.c", "", "a b", "caf\u{e9}.o", "x\ty"]).to_string();
            }
            if rng.chance(1, 10) {
                name = rng.pick(&["___exit_", "__exit", "___exi", "____exit", "___exit2", "_"]).to_string();
            }
            d.sym.push((name, rng.u32() & 0xffffff));
        }
    }
    // --- argument string: words of printable ASCII, runs of blanks / tabs, leading / trailing white space
    let nwords = match k % 7 {
        0 => 0,
        1 => 1,
        _ => rng.below(o.max_words + 1),
    };
    let mut args: Vec<u8> = Vec::new();
    let ws = |rng: &mut Rng, v: &mut Vec<u8>, min: usize| {
        for _ in 0..(min + if rng.chance(1, 2) { 0 } else { rng.below(4) }) {
            v.push(if rng.chance(1, 3) { 9 } else { 32 });
        }
    };
    if rng.chance(1, 3) {
        ws(rng, &mut args, 1);
    }
    for wi in 0..nwords {
        let len = 1 + if rng.chance(1, 12) { rng.below(o.max_wordlen) } else { rng.below(9) };
        for _ in 0..len {
            if rng.chance(1, 12) {
                // multi-byte UTF-8 inside a word: the copy is byte-exact
                args.extend_from_slice(rng.pick(&["\u{e9}", "\u{3042}", "\u{20ac}", "\u{1f600}"]).as_bytes());
            } else {
                args.push(33 + rng.below(94) as u8);
            }
        }
        if wi + 1 < nwords {
            ws(rng, &mut args, 1);
        }
    }
    if rng.chance(1, 3) {
        ws(rng, &mut args, 1);
    }
    d.args = args;
    d
}

fn jb(s: &str) -> String {
    j_bytes(s.as_bytes())
}

pub fn run_elf_load(args: &Args) -> Result<()> {
    let tier = args.get("tier").unwrap_or("quick").to_string();
    let outdir = args.req("out")?.to_string();
    let seed = args.num("seed", 1);
    let threads = args.num("threads", 8) as usize;
    std::fs::create_dir_all(&outdir)?;
    let thorough = tier == "thorough";
    let total = if thorough { 2000 } else { 480 };
    // --only k1,k2,...: regenerate just these files (replay; the generator is a function of seed, tier and k)
    let only: Option<std::sync::Arc<Vec<usize>>> = args.get("only").map(|s| std::sync::Arc::new(s.split(',').filter_map(|x| x.parse().ok()).collect()));
    let mut handles = Vec::new();
    for t in 0..threads {
        let outdir = outdir.clone();
        let only = only.clone();
        handles.push(std::thread::spawn(move || -> Result<u64> {
            let mut m = Machine::new(Bg::Zero);
            let mut w = BufWriter::with_capacity(1 << 20, std::fs::File::create(format!("{}/elf_{:02}.ndjson", outdir, t))?);
            let path = format!("{}/gen_{:02}.elf", outdir, t);
            let mut n = 0u64;
            for k in (t..total).step_by(threads) {
                if let Some(o) = &only {
                    if !o.contains(&k) {
                        continue;
                    }
                }
                let mut rng = Rng::new(seed ^ hash_str("elf"), k as u64);
                let big = thorough && k % 61 == 3; // ~33 files with segments up to 8 KiB, spread over all threads
                let o = GenOpts {
                    max_seg: if big { 8192 } else if thorough { 2048 } else { 512 },
                    max_got: if thorough { 64 } else { 16 },
                    max_syms: if thorough { 200 } else { 24 },
                    max_words: if thorough { 32 } else { 10 },
                    max_wordlen: if thorough { 200 } else { 60 },
                };
                let mut d = gen_desc(k, &o, &mut rng);
                let file = write_elf(&mut d, &mut rng);
                std::fs::write(&path, &file)?;
                let argstr = String::from_utf8(d.args.clone()).map_err(|_| anyhow!("args"))?;
                m.cpu.er = [0; 8];
                m.cpu.exit_addr = 0;
                let p2 = path.clone();
                let r = std::panic::catch_unwind(std::panic::AssertUnwindSafe(|| emu::elf::load(p2, &mut m.cpu, argstr)));
                let res = if r.is_ok() { "ok" } else { "panic" };
                let note = if r.is_err() { take_panic().unwrap_or_default() } else { String::new() };
                // observation: registers, exit address, non-zero DRAM runs, anything outside DRAM
                let mut runs = String::from("[");
                let mut first = true;
                let dram = &m.cpu.bus.dram;
                let mut i = 0usize;
                let mut touched: Vec<(u32, u8)> = Vec::new();
                while i < dram.len() {
                    if dram[i] != 0 {
                        let st = i;
                        // a run ends where 512 zero bytes follow (zero bytes inside a run are listed: the specification
                        // looks addresses up run by run, so few long runs are validated much faster than many short ones)
                        let mut last = i;
                        while i < dram.len() && i - last <= 512 {
                            if dram[i] != 0 {
                                last = i;
                            }
                            i += 1;
                        }
                        i = last + 1;
                        if !first {
                            runs.push(',');
                        }
                        first = false;
                        runs.push_str(&format!("[{},{}]", DRAM_LO + st as u32, j_bytes(&dram[st..i])));
                        for q in st..i {
                            touched.push((DRAM_LO + q as u32, dram[q]));
                        }
                    } else {
                        i += 1;
                    }
                }
                runs.push(']');
                let outside: Vec<(u32, u8)> = m.diff().into_iter().filter(|(a, _)| !(DRAM_LO..=DRAM_HI).contains(a)).collect();
                let regs = m.get_regs();
                let mut s = String::with_capacity(4096);
                s.push_str(&format!("{{\"k\":\"elf\",\"id\":{},\"ph\":[", k));
                for (i, p) in d.ph.iter().enumerate() {
                    if i > 0 {
                        s.push(',');
                    }
                    s.push_str(&format!("[{},{},{},{},{},{}]", if p.ty == 1 { 1 } else { 0 }, p.off, p.va, p.pa, p.fsz, p.msz));
                }
                s.push_str("],\"seg\":[");
                for (i, b) in d.seg.iter().enumerate() {
                    if i > 0 {
                        s.push(',');
                    }
                    s.push_str(&j_bytes(b));
                }
                s.push_str("],\"sh\":[");
                for (i, h) in d.sh.iter().enumerate() {
                    if i > 0 {
                        s.push(',');
                    }
                    s.push_str(&format!("[{},{},{},{},{},{}]", jb(&h.name), h.addr, h.off, h.size, h.link, h.entsize));
                }
                s.push_str("],\"sym\":[");
                for (i, (name, v)) in d.sym.iter().enumerate() {
                    if i > 0 {
                        s.push(',');
                    }
                    s.push_str(&format!("[{},[{},{}]]", jb(name), v >> 16, v & 0xffff));
                }
                let v19 = regs.vec19();
                s.push_str(&format!("],\"args\":{},\"res\":\"{}\",\"er\":{},\"exit\":[{},{}],\"dram\":{},\"outside\":{},\"note\":{}}}",
                                    j_bytes(&d.args), res, j_u32s(&v19[0..16]), m.cpu.exit_addr >> 16, m.cpu.exit_addr & 0xffff, runs, j_pairs(&outside), j_str(&note)));
                writeln!(w, "{}", s)?;
                n += 1;
                // back to a pristine machine
                let mut undo = touched;
                undo.extend(outside.iter().cloned());
                m.restore(&undo);
            }
            w.flush()?;
            let _ = std::fs::remove_file(&path);
            Ok(n)
        }));
    }
    let mut n = 0;
    for h in handles {
        n += h.join().map_err(|_| anyhow!("thread"))??;
    }
    println!("{{\"driver\":\"elf-load\",\"events\":{},\"files\":{}}}", n, n);
    Ok(())
}
