//! Stepped guest programs on the real Cpu (stepping loop = try_interrupt + fetch/exec, exactly what
//! the run loop does per iteration), logged as threaded events for spec/TraceRun.tla:
//!   `irq-replay`   (C10, C06): main program + handlers ending in RTE, requests injected at the
//!                  instruction boundaries chosen by TLC-generated schedules
//!   `acc-cases`    (C06): acceptance of every vector x CCR x SP placement
//!   `callret`      (C05): programs built from TLC-generated call/return nesting words
use crate::asm::Asm;
use crate::gen::BUS_INIT;
use crate::machine::*;
use crate::rng::{hash_str, Rng};
use crate::Args;
use anyhow::{anyhow, Result};
use std::io::{BufWriter, Write};

pub struct Thread {
    pub m: Machine,
    pub w: BufWriter<std::fs::File>,
    pub id: u64,
}

impl Thread {
    pub fn new(path: &str, bg: Bg) -> Result<Self> {
        Ok(Thread { m: Machine::new(bg), w: BufWriter::with_capacity(1 << 20, std::fs::File::create(path)?), id: 0 })
    }
    /// (re)initialise: undo the previous history, apply pokes, set registers; `load` event
    pub fn load(&mut self, regs: &Regs, pokes: &[(u32, u8)], exit: Option<u32>) -> Result<()> {
        let d = self.m.diff();
        self.m.restore(&d);
        for &(a, b) in pokes {
            self.m.poke(a, b);
        }
        self.m.set_regs(regs);
        // `done` = the program's end label: where the adaptive drivers stop stepping (used when a history is re-driven)
        let ex = exit.map(|e| format!(",\"done\":[{},{}]", e >> 16, e & 0xffff)).unwrap_or_default();
        writeln!(self.w, "{{\"k\":\"load\",\"id\":{},\"bg\":\"{}\",\"pre\":{},\"pk\":{},\"pend\":[]{}}}", self.id, self.m.bg.name(), j_u32s(&regs.vec19()), j_runs(pokes), ex)?;
        self.id += 1;
        Ok(())
    }
    pub fn request(&mut self, v: u8) -> Result<()> {
        self.m.cpu.vh_request_interrupt(v);
        writeln!(self.w, "{{\"k\":\"req\",\"id\":{},\"v\":{}}}", self.id, v)?;
        self.id += 1;
        Ok(())
    }
    /// instruction boundary: what run() does before every fetch
    pub fn boundary(&mut self) -> Result<&'static str> {
        let before = self.m.cpu.vh_pending();
        let out = self.m.try_interrupt();
        self.m.commit(&out.wr);
        let after = self.m.cpu.vh_pending();
        // observation: which request left the queue (multiset difference)
        let mut entered = 0u8;
        if after.len() < before.len() {
            let mut rest = after.clone();
            for v in &before {
                if let Some(p) = rest.iter().position(|x| x == v) {
                    rest.remove(p);
                } else {
                    entered = *v;
                    break;
                }
            }
        }
        writeln!(self.w, "{{\"k\":\"acc\",\"id\":{},\"entered\":{},\"res\":\"{}\",\"post\":{},\"wr\":{},\"pend\":{}}}",
                 self.id, entered, out.res, j_u32s(&out.post.vec19()), j_pairs(&out.wr), j_bytes(&after))?;
        self.id += 1;
        Ok(out.res)
    }
    pub fn step(&mut self) -> Result<&'static str> {
        let out = self.m.step();
        self.m.commit(&out.wr);
        writeln!(self.w, "{{\"k\":\"step\",\"id\":{},\"res\":\"{}\",\"post\":{},\"wr\":{},\"st\":{},\"msgs\":{},\"con\":{}}}",
                 self.id, out.res, j_u32s(&out.post.vec19()), j_pairs(&out.wr), out.st, j_msgs(&out.msgs), j_bytes(&out.con))?;
        self.id += 1;
        Ok(out.res)
    }
    pub fn end(&mut self) -> Result<()> {
        writeln!(self.w, "{{\"k\":\"end\",\"id\":{}}}", self.id)?;
        self.id += 1;
        Ok(())
    }
    pub fn cmp(&mut self, what: &str, a: &[u32], b: &[u32]) -> Result<()> {
        writeln!(self.w, "{{\"k\":\"cmp\",\"id\":{},\"what\":\"{}\",\"a\":{},\"b\":{}}}", self.id, what, j_u32s(a), j_u32s(b))?;
        self.id += 1;
        Ok(())
    }
}

fn bus_pokes(p: &mut Vec<(u32, u8)>) {
    let b = BUS_INIT;
    p.extend_from_slice(&[(ABWCR, b[0]), (ASTCR, b[1]), (WCRH, b[2]), (WCRL, b[3]), (DRCRA, b[4])]);
}
fn poke32(p: &mut Vec<(u32, u8)>, a: u32, v: u32) {
    for i in 0..4 {
        p.push((a + i, (v >> (8 * (3 - i))) as u8));
    }
}
fn poke_bytes(p: &mut Vec<(u32, u8)>, a: u32, b: &[u8]) {
    for (i, x) in b.iter().enumerate() {
        p.push((a + i as u32, *x));
    }
}

pub struct IrqProg {
    pub pokes: Vec<(u32, u8)>,
    pub entry: u32,
    pub done: u32,
    pub sp: u32,
    pub data: u32,
    pub log: u32,
}

/// main: counted arithmetic loop over a data window; one handler per vector (push, log the vector
/// number, pop, RTE); handlers of `trap_in` vectors additionally execute TRAPA #n (nesting).
pub fn build_irq_prog(code: u32, sp: u32, data: u32, vectors: &[u8], k_iter: u16, tail: usize, trap_in: &[(u8, u8)]) -> IrqProg {
    let logp = data + 0x80; // pointer to the next free log byte
    let log = data + 0x90;
    let mut a = Asm::new(code);
    a.label("main");
    a.mov_l_imm(0, 0);
    a.mov_l_imm(1, 1);
    a.mov_l_imm(3, data);
    a.mov_w_imm(6, k_iter);
    a.label("loop");
    // a register-indirect jump through a pointer whose upper byte is not zero (only the low 24 bits are an
    // address): whatever is accepted or trapped afterwards stacks the 24-bit return address, nothing else
    a.mov_l_label(5, "loop2");
    a.mov_w_imm(8 + 5, 0x8100 | ((code >> 16) & 0xff) as u16);
    a.jmp_ind(5);
    a.label("loop2");
    a.add_l_rr(1, 0);
    a.adds(1, 1);
    a.xor_b_rr(8, 1); // R0L ^ R1H
    a.mov_b_store_ind(8, 3);
    a.adds(1, 3);
    a.mulxu_b(9, 2); // R2 = R2L * R1L
    a.dec_w1(6);
    a.bcc8(6, "loop"); // BNE
    for _ in 0..tail {
        a.mov_b_rr(10, 10); // R2L -> R2L
    }
    a.label("done");
    a.bcc8(0, "done");
    let handler = |a: &mut Asm, name: &str, idv: u8, trap: Option<u8>, ret_rte: bool| {
        a.label(name);
        a.push_l(0);
        a.push_l(1);
        a.mov_l_load_abs24(logp, 1);
        a.mov_b_imm(8, idv);
        a.mov_b_store_ind(8, 1);
        a.adds(1, 1);
        a.mov_l_store_abs24(1, logp);
        if let Some(n) = trap {
            a.trapa(n);
        }
        a.pop_l(1);
        a.pop_l(0);
        if ret_rte {
            a.rte();
        } else {
            a.rts();
        }
    };
    for &v in vectors {
        let trap = trap_in.iter().find(|(vv, _)| *vv == v).map(|(_, n)| *n);
        handler(&mut a, &format!("h{}", v), v, trap, true);
    }
    // trap handlers (vectors 9, 10, 11); #1's handler traps again with #2 (deeper nesting)
    handler(&mut a, "t1", 0x81, Some(2), true);
    handler(&mut a, "t2", 0x82, Some(3), true);
    handler(&mut a, "t3", 0x83, None, true);
    let (org, bytes, labels) = a.finish();
    let mut pokes = Vec::new();
    poke_bytes(&mut pokes, org, &bytes);
    for &v in vectors {
        // vector entries carry a non-zero top byte now and then (only the low 24 bits count)
        poke32(&mut pokes, 4 * v as u32, ((v as u32 & 1) * 0x5a00_0000) | labels[&format!("h{}", v)]);
    }
    poke32(&mut pokes, 4 * 9, labels["t1"]);
    poke32(&mut pokes, 4 * 10, 0xff00_0000 | labels["t2"]);
    poke32(&mut pokes, 4 * 11, labels["t3"]);
    poke32(&mut pokes, logp, log);
    bus_pokes(&mut pokes);
    IrqProg { pokes, entry: labels["main"], done: labels["done"], sp, data, log }
}

fn projection(m: &Machine, p: &IrqProg) -> Vec<u32> {
    let r = m.get_regs();
    let mut v: Vec<u32> = Vec::new();
    for i in 0..7 {
        v.push(r.er[i] >> 16);
        v.push(r.er[i] & 0xffff);
    }
    v.push(r.er[7] >> 16);
    v.push(r.er[7] & 0xffff);
    for i in 0..0x40 {
        v.push(m.peek(p.data + i).unwrap_or(0) as u32);
    }
    v
}

fn read_schedules(path: &str) -> Result<Vec<Vec<(String, u32)>>> {
    let mut out = Vec::new();
    for line in std::fs::read_to_string(path)?.lines() {
        let v: serde_json::Value = serde_json::from_str(line)?;
        let mut b = Vec::new();
        for op in v.as_array().ok_or_else(|| anyhow!("schedule"))? {
            b.push((op[0].as_str().unwrap_or("").to_string(), op[1].as_u64().unwrap_or(0) as u32));
        }
        out.push(b);
    }
    Ok(out)
}

pub fn run_irq_replay(args: &Args) -> Result<()> {
    let outdir = args.req("out")?.to_string();
    let seed = args.num("seed", 1);
    let tier = args.get("tier").unwrap_or("quick").to_string();
    let threads = args.num("threads", 8) as usize;
    std::fs::create_dir_all(&outdir)?;
    let sched = std::sync::Arc::new(match args.get("in") {
        Some(p) => read_schedules(p)?,
        None => Vec::new(),
    });
    let ns = sched.len();
    let n_random = if tier == "thorough" { 3000 } else { 300 };
    let mut handles = Vec::new();
    let volume_cap: u64 = if tier == "thorough" { 3_000_000 } else { 250_000 };
    for t in 0..threads {
        let outdir = outdir.clone();
        let sched = sched.clone();
        handles.push(std::thread::spawn(move || -> Result<(u64, u64)> {
            let mut th = Thread::new(&format!("{}/thr_irq_{:02}.ndjson", outdir, t), if t % 2 == 0 { Bg::Zero } else { Bg::Tag })?;
            let mut rng = Rng::new(seed ^ hash_str("C10"), t as u64);
            let mut nh = 0u64;
            let total = ns + n_random;
            for k in (t..total).step_by(threads) {
                // a tree on which programs no longer terminate produces step-capped histories: stop early, the
                // violations are in what has been recorded (a healthy tree stays far below this volume)
                if th.id > volume_cap {
                    break;
                }
                // schedule: from TLC, or a seeded random longer one
                let s: Vec<(String, u32)> = if k < ns {
                    sched[k].clone()
                } else {
                    let len = 20 + rng.below(60);
                    (0..len).map(|_| if rng.chance(1, 4) { ("r".to_string(), 1 + rng.below(3) as u32) } else { ("s".to_string(), 0) }).collect()
                };
                // slots -> concrete vectors 1..63 (all of them over time), code / stack / data placement
                let base = (k * 5) % 63;
                let vectors: Vec<u8> = (0..3).map(|i| ((base + i * 21 + (k / 63) % 20) % 63 + 1) as u8).collect();
                let mut vs = vectors.clone();
                vs.sort();
                vs.dedup();
                if vs.len() < 3 || vs.iter().any(|v| (9..=11).contains(v)) {
                    // keep the three slots distinct and away from the trap vectors used by nested handlers
                    vs = vec![12 + (k % 40) as u8, 5, 60];
                }
                let vectors = if vs.len() == 3 { vs } else { vec![12, 5, 60] };
                let (code, sp, data) = match k % 4 {
                    0 => (0x416900u32, 0xffef00u32, 0xffd000u32),
                    1 => (0xffc000, 0xffee00, 0x430000),
                    2 => (0x450000, 0x5ffff0, 0xffd100),
                    _ => (0xffc400, 0x41f000, 0xffd200),
                };
                let sp = sp | if k % 5 == 4 { 0x5a00_0000 } else { 0 }; // upper byte of SP is not part of the address
                let trap_in: Vec<(u8, u8)> = if k % 3 == 0 { vec![(vectors[0], 1)] } else if k % 7 == 0 { vec![(vectors[1], 3)] } else { vec![] };
                let nsteps = s.iter().filter(|x| x.0 == "s").count();
                let k_iter = (nsteps / 8 + 2) as u16;
                let prog = build_irq_prog(code, sp & 0xffffff, data, &vectors, k_iter, 10, &trap_in);
                let mut regs = Regs::default();
                for i in 0..7 {
                    regs.er[i] = rng.u32();
                }
                regs.er[7] = sp;
                regs.ccr = if k % 6 == 5 { 0x80 | (rng.u8() & 0x7f) } else { rng.u8() & 0x7f }; // sometimes start masked: nothing may be accepted
                regs.pc = prog.entry;
                // ---- reference run without interrupts (logged as a validated history of its own for the
                // random schedules; executed silently for the enumerated ones to keep the volume down)
                let mut guard = 0;
                if k >= ns {
                    th.load(&regs, &prog.pokes, Some(prog.done))?;
                    nh += 1;
                    while th.m.cpu.vh_pc() != prog.done && guard < 4000 {
                        if th.boundary()? != "ok" || th.step()? != "ok" {
                            break;
                        }
                        guard += 1;
                    }
                } else {
                    let d = th.m.diff();
                    th.m.restore(&d);
                    for &(a, b) in &prog.pokes {
                        th.m.poke(a, b);
                    }
                    th.m.set_regs(&regs);
                    while th.m.cpu.vh_pc() != prog.done && guard < 4000 {
                        let o = th.m.try_interrupt();
                        th.m.commit(&o.wr);
                        let o = th.m.step();
                        th.m.commit(&o.wr);
                        if o.res != "ok" {
                            break;
                        }
                        guard += 1;
                    }
                }
                let reference = projection(&th.m, &prog);
                // ---- a burst of 300: far more requests than a small (64 / 256 entry) queue holds, raised while the first handler runs (I set);
                //      every one of them must be entered after the RTE (one history per thread and run)
                if k == t && (regs.ccr & 0x80) == 0 {
                    th.load(&regs, &prog.pokes, Some(prog.done))?;
                    nh += 1;
                    th.request(vectors[0])?;
                    let mut okb = th.boundary()? == "ok" && th.step()? == "ok";
                    for j in 0..300usize {
                        th.request(vectors[j % 3])?;
                    }
                    let mut g = 0;
                    while okb && g < 30000 && (th.m.cpu.vh_pc() != prog.done || !th.m.cpu.vh_pending().is_empty()) {
                        okb = th.boundary()? == "ok" && th.step()? == "ok";
                        g += 1;
                    }
                    if okb {
                        th.end()?;
                    }
                }
                // ---- the run with requests injected
                th.load(&regs, &prog.pokes, Some(prog.done))?;
                nh += 1;
                let mut failed = false;
                for (op, x) in &s {
                    if th.m.cpu.vh_pc() == prog.done {
                        break;
                    }
                    if op == "r" {
                        th.request(vectors[(*x as usize - 1) % 3])?;
                    } else if th.boundary()? != "ok" || th.step()? != "ok" {
                        failed = true;
                        break;
                    }
                }
                guard = 0;
                while !failed && th.m.cpu.vh_pc() != prog.done && guard < 6000 {
                    if th.boundary()? != "ok" || th.step()? != "ok" {
                        failed = true;
                    }
                    guard += 1;
                }
                // a few idle boundaries at the end so that everything still pending can be delivered
                for _ in 0..12 {
                    if failed {
                        break;
                    }
                    if th.boundary()? != "ok" || th.step()? != "ok" {
                        failed = true;
                    }
                    while !failed && th.m.cpu.vh_pc() != prog.done && guard < 8000 {
                        if th.boundary()? != "ok" || th.step()? != "ok" {
                            failed = true;
                        }
                        guard += 1;
                    }
                }
                if !failed && (regs.ccr & 0x80) == 0 {
                    th.end()?;
                    let got = projection(&th.m, &prog);
                    th.cmp("main-result-with-vs-without-interrupts", &reference, &got)?;
                }
            }
            th.w.flush()?;
            Ok((th.id, nh))
        }));
    }
    let (mut n, mut nh) = (0, 0);
    for hd in handles {
        let (a, b) = hd.join().map_err(|_| anyhow!("thread"))??;
        n += a;
        nh += b;
    }
    println!("{{\"driver\":\"irq-replay\",\"events\":{},\"histories\":{},\"tlc_behaviours\":{}}}", n, nh, ns);
    Ok(())
}

/// C06: acceptance of every vector 1..63 x CCR values x SP placements, as 3-event histories
pub fn run_acc_cases(args: &Args) -> Result<()> {
    let outdir = args.req("out")?.to_string();
    let seed = args.num("seed", 1);
    let tier = args.get("tier").unwrap_or("quick").to_string();
    let threads = args.num("threads", 8) as usize;
    std::fs::create_dir_all(&outdir)?;
    let ccr_step = if tier == "thorough" { 1 } else { 5 };
    let mut handles = Vec::new();
    for t in 0..threads {
        let outdir = outdir.clone();
        handles.push(std::thread::spawn(move || -> Result<(u64, u64)> {
            let mut th = Thread::new(&format!("{}/thr_acc_{:02}.ndjson", outdir, t), Bg::Tag)?;
            let mut rng = Rng::new(seed ^ hash_str("C06acc"), t as u64);
            let mut nh = 0u64;
            let mut k = 0usize;
            for v in 1..=63u8 {
                for ccr in (0..256usize).step_by(ccr_step) {
                    k += 1;
                    if k % threads != t {
                        continue;
                    }
                    let sp = match k % 7 {
                        0 => 0xffef00u32,
                        1 => 0x5ffffc,
                        2 => 0x400004,
                        3 => 0xffff20, // first push lands on the last bytes of on-chip RAM
                        4 => 0xffbf24,
                        5 => 0x0000f0, // stack in the vector area (mapped)
                        _ => 0x480000 + (rng.u32() & 0xfffc),
                    } | match k % 5 {
                        0 => 0x0100_0000,
                        1 => 0xff00_0000,
                        _ => 0,
                    };
                    let mut pokes = Vec::new();
                    let target = (rng.u32() & 0x00ff_fffe) | ((rng.u8() as u32) << 24);
                    poke32(&mut pokes, 4 * v as u32, target);
                    if (36..=39).contains(&v) {
                        // the timer's flags are set when its interrupt is accepted: acceptance touches the frame only
                        pokes.push((0xffff82, 0xe0 | (k as u8 & 0x1f)));
                        pokes.push((0xffff80, 0xe0));
                    }
                    bus_pokes(&mut pokes);
                    let mut regs = Regs::default();
                    for i in 0..7 {
                        regs.er[i] = rng.u32();
                    }
                    regs.er[7] = sp;
                    regs.ccr = ccr as u8;
                    regs.pc = (0xffc000 + (rng.u32() & 0x1ffe)) as u32;
                    th.load(&regs, &pokes, None)?;
                    nh += 1;
                    th.request(v)?;
                    let _ = th.boundary()?;
                }
            }
            th.w.flush()?;
            Ok((th.id, nh))
        }));
    }
    let (mut n, mut nh) = (0, 0);
    for hd in handles {
        let (a, b) = hd.join().map_err(|_| anyhow!("thread"))??;
        n += a;
        nh += b;
    }
    println!("{{\"driver\":\"acc-cases\",\"events\":{},\"histories\":{}}}", n, nh);
    Ok(())
}

// ------------------------------------------------------------------------------------------------
// C14: set_handler histories.  A handler is installed, the vector delivered, the handler REPLACED,
// the vector delivered again (must enter the new address), a second vector installed and both
// delivered - all through the real TRAPA #0 / request / try_interrupt / RTE path of one Cpu.
// ------------------------------------------------------------------------------------------------
pub fn run_handler_cases(args: &Args) -> Result<()> {
    let outdir = args.req("out")?.to_string();
    let seed = args.num("seed", 1);
    let tier = args.get("tier").unwrap_or("quick").to_string();
    std::fs::create_dir_all(&outdir)?;
    let mut th = Thread::new(&format!("{}/thr_handler_00.ndjson", outdir), Bg::Tag)?;
    let mut rng = Rng::new(seed ^ hash_str("C14handler"), 1);
    let step = if tier == "thorough" { 1 } else { 4 };
    let mut nh = 0u64;
    for v in (1..=63u8).step_by(step) {
        let v2 = 1 + (v as u32 * 7 + 11) as u8 % 63;
        let v2 = if v2 == v { 1 + v % 63 } else { v2 };
        let code = if v % 2 == 0 { 0xffc000u32 } else { 0x410000 } + ((rng.u32() & 0xff) << 1);
        let mut a = Asm::new(code);
        let install = |a: &mut Asm, blk: &str| {
            a.mov_l_imm(0, 113);
            a.mov_l_label(1, blk);
            a.trapa(0);
        };
        install(&mut a, "blk1");
        a.label("r1");
        a.adds(1, 2);
        install(&mut a, "blk2");
        a.label("r2");
        a.adds(1, 2);
        install(&mut a, "blk3");
        a.label("r3");
        a.adds(1, 2);
        a.label("done");
        a.bcc8(0, "done");
        a.label("hA");
        a.adds(1, 3);
        a.rte();
        a.label("hB");
        a.adds(2, 4);
        a.rte();
        for (blk, vec, h) in [("blk1", v, "hA"), ("blk2", v, "hB"), ("blk3", v2, "hA")] {
            a.label(blk);
            a.w(0);
            a.w(vec as u16);
            a.long_label(h);
        }
        let (org, bytes, labels) = a.finish();
        let mut pokes = Vec::new();
        poke_bytes(&mut pokes, org, &bytes);
        bus_pokes(&mut pokes);
        let mut regs = Regs::default();
        for i in 2..7 {
            regs.er[i] = rng.u32();
        }
        regs.er[7] = if v % 3 == 0 { 0x5fff00 } else { 0xffef00 };
        regs.ccr = (rng.u8() & 0x7f) & !0x80; // I clear
        regs.pc = org;
        th.load(&regs, &pokes, Some(labels["done"]))?;
        nh += 1;
        let mut fired = [false; 3];
        for _ in 0..60 {
            let pc = th.m.get_regs().pc;
            if pc == labels["done"] {
                break;
            }
            if pc == labels["r1"] && !fired[0] {
                fired[0] = true;
                th.request(v)?;
            } else if pc == labels["r2"] && !fired[1] {
                fired[1] = true;
                th.request(v)?;
            } else if pc == labels["r3"] && !fired[2] {
                fired[2] = true;
                th.request(v2)?;
                th.request(v)?;
            }
            if th.boundary()? != "ok" {
                break;
            }
            if th.step()? != "ok" {
                break;
            }
        }
        th.end()?;
    }
    th.w.flush()?;
    println!("{{\"driver\":\"handler-cases\",\"events\":{},\"histories\":{}}}", th.id, nh);
    Ok(())
}

// ------------------------------------------------------------------------------------------------
// C05: call / return nesting words -> programs.  A word is a sequence of call forms 1..5 and 0
// (return); it is turned into a tree of subroutines realising exactly that dynamic sequence.
// ------------------------------------------------------------------------------------------------
struct Node {
    form: u32,
    kids: Vec<Node>,
}
fn parse_word(w: &[u32], pos: &mut usize) -> Vec<Node> {
    let mut v = Vec::new();
    while *pos < w.len() {
        let f = w[*pos];
        *pos += 1;
        if f == 0 {
            return v;
        }
        let kids = parse_word(w, pos);
        v.push(Node { form: f, kids });
    }
    v
}
fn emit_calls(a: &mut Asm, kids: &[Node], prefix: &str, vecslots: &mut Vec<(u8, String)>, bodies: &mut Vec<(String, Vec<Node>)>, no_bsr8: bool) {
    for (i, n) in kids.iter().enumerate() {
        let name = format!("{}_{}", prefix, i);
        a.adds(1, 0); // visible work between calls
        match n.form {
            1 if !no_bsr8 => a.bsr8(&name),
            1 => a.bsr16(&name),
            2 => a.bsr16(&name),
            3 => {
                a.mov_l_label(4, &name);
                a.jsr_ind(4)
            }
            4 => a.jsr_abs(&name),
            _ => {
                let aa = (0x40 + 4 * vecslots.len()) as u8;
                vecslots.push((aa, name.clone()));
                a.jsr_mind(aa)
            }
        }
        a.xor_b_rr(8, 9);
    }
    for (i, n) in kids.iter().enumerate() {
        let name = format!("{}_{}", prefix, i);
        let mut pos = 0;
        let _ = &mut pos;
        bodies.push((name, n.kids.iter().map(|k| Node { form: k.form, kids: clone_nodes(&k.kids) }).collect()));
    }
}
fn clone_nodes(v: &[Node]) -> Vec<Node> {
    v.iter().map(|k| Node { form: k.form, kids: clone_nodes(&k.kids) }).collect()
}

pub fn run_callret(args: &Args) -> Result<()> {
    let outdir = args.req("out")?.to_string();
    let seed = args.num("seed", 1);
    let threads = args.num("threads", 8) as usize;
    std::fs::create_dir_all(&outdir)?;
    let mut words: Vec<Vec<u32>> = Vec::new();
    if let Some(p) = args.get("in") {
        for line in std::fs::read_to_string(p)?.lines() {
            let v: serde_json::Value = serde_json::from_str(line)?;
            words.push(v.as_array().ok_or_else(|| anyhow!("word"))?.iter().map(|x| x.as_u64().unwrap_or(0) as u32).collect());
        }
    }
    let words = std::sync::Arc::new(words);
    let nw = words.len();
    let mut handles = Vec::new();
    for t in 0..threads {
        let outdir = outdir.clone();
        let words = words.clone();
        handles.push(std::thread::spawn(move || -> Result<(u64, u64)> {
            let mut th = Thread::new(&format!("{}/thr_call_{:02}.ndjson", outdir, t), Bg::Tag)?;
            let mut rng = Rng::new(seed ^ hash_str("C05call"), t as u64);
            let mut nh = 0u64;
            for k in (t..nw).step_by(threads) {
                let mut pos = 0;
                let roots = parse_word(&words[k], &mut pos);
                let (code, sp) = match k % 4 {
                    0 => (0xffc000u32, 0xffef00u32),
                    1 => (0x416900, 0x5ffff0),
                    2 => (0x4a0000, 0xffee00),
                    _ => (0xffd000, 0x41f000),
                };
                let sp = sp | if k % 3 == 2 { 0xa500_0000 } else { 0 };
                let build = |no_bsr8: bool| -> Result<((u32, Vec<u8>, std::collections::HashMap<String, u32>), Vec<(u8, String)>), String> {
                    let mut a = Asm::new(code);
                    let mut vecslots: Vec<(u8, String)> = Vec::new();
                    let mut bodies: Vec<(String, Vec<Node>)> = Vec::new();
                    a.label("main");
                    emit_calls(&mut a, &roots, "f", &mut vecslots, &mut bodies, no_bsr8);
                    a.label("done");
                    a.bcc8(0, "done");
                    let mut qi = 0;
                    while qi < bodies.len() {
                        let (name, kids) = (bodies[qi].0.clone(), clone_nodes(&bodies[qi].1));
                        qi += 1;
                        a.label(&name);
                        a.push_l(5);
                        a.adds(2, 1);
                        emit_calls(&mut a, &kids, &name, &mut vecslots, &mut bodies, no_bsr8);
                        a.pop_l(5);
                        a.rts();
                    }
                    Ok((a.finish_checked()?, vecslots))
                };
                // BSR d:8 targets out of range: the same word with BSR d:16 instead
                let ((org, bytes, labels), vecslots) = match build(false) {
                    Ok(x) => x,
                    Err(_) => build(true).map_err(|e| anyhow!(e))?,
                };
                let mut pokes = Vec::new();
                poke_bytes(&mut pokes, org, &bytes);
                for (aa, name) in &vecslots {
                    poke32(&mut pokes, *aa as u32, ((rng.u8() as u32) << 24) | labels[name]);
                }
                bus_pokes(&mut pokes);
                let mut regs = Regs::default();
                for i in 0..7 {
                    regs.er[i] = rng.u32();
                }
                regs.er[7] = sp;
                regs.ccr = rng.u8();
                regs.pc = labels["main"];
                th.load(&regs, &pokes, Some(labels["done"]))?;
                nh += 1;
                let mut guard = 0;
                while th.m.cpu.vh_pc() != labels["done"] && guard < 3000 {
                    if th.step()? != "ok" {
                        break;
                    }
                    guard += 1;
                }
                // call . ... . matching return: back at `done` with SP restored
                let r = th.m.get_regs();
                th.cmp("sp-restored-after-balanced-calls", &[sp >> 16, sp & 0xffff, labels["done"] >> 16, labels["done"] & 0xffff], &[r.er[7] >> 16, r.er[7] & 0xffff, r.pc >> 16, r.pc & 0xffff])?;
            }
            th.w.flush()?;
            Ok((th.id, nh))
        }));
    }
    let (mut n, mut nh) = (0, 0);
    for hd in handles {
        let (a, b) = hd.join().map_err(|_| anyhow!("thread"))??;
        n += a;
        nh += b;
    }
    println!("{{\"driver\":\"callret\",\"events\":{},\"histories\":{},\"tlc_behaviours\":{}}}", n, nh, nw);
    Ok(())
}
