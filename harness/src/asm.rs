//! Tiny assembler for guest programs (input preparation only).  A wrong encoding here cannot hide
//! a defect: the specification executes the same bytes the emulator does.
use std::collections::HashMap;

#[derive(Clone, Copy)]
enum Fix {
    Rel8,
    Rel16,
    Abs24Split, // opcode byte | hi8 in the first word, lo16 in the next
    Abs24Ext,   // 00hh llll in two extension words
    Abs32,      // 32-bit immediate holding an address
}

pub struct Asm {
    pub org: u32,
    pub b: Vec<u8>,
    labels: HashMap<String, u32>,
    fixes: Vec<(usize, String, Fix)>,
}

impl Asm {
    pub fn new(org: u32) -> Self {
        Asm { org, b: Vec::new(), labels: HashMap::new(), fixes: Vec::new() }
    }
    pub fn here(&self) -> u32 {
        self.org + self.b.len() as u32
    }
    pub fn label(&mut self, n: &str) {
        let h = self.here();
        self.labels.insert(n.to_string(), h);
    }
    pub fn addr(&self, n: &str) -> u32 {
        *self.labels.get(n).unwrap_or_else(|| panic!("label {}", n))
    }
    pub fn w(&mut self, w: u16) {
        self.b.push((w >> 8) as u8);
        self.b.push(w as u8);
    }
    pub fn finish(self) -> (u32, Vec<u8>, HashMap<String, u32>) {
        self.finish_checked().expect("branch out of range")
    }
    pub fn finish_checked(mut self) -> Result<(u32, Vec<u8>, HashMap<String, u32>), String> {
        for (pos, name, kind) in self.fixes.clone() {
            let t = *self.labels.get(&name).unwrap_or_else(|| panic!("label {}", name));
            match kind {
                Fix::Rel8 => {
                    let next = self.org + pos as u32 + 2;
                    let d = t as i64 - next as i64;
                    if !(-128..=127).contains(&d) {
                        return Err(format!("rel8 range {}", name));
                    }
                    self.b[pos + 1] = d as i8 as u8;
                }
                Fix::Rel16 => {
                    let next = self.org + pos as u32 + 4;
                    let d = t as i64 - next as i64;
                    if !(-32768..=32767).contains(&d) {
                        return Err(format!("rel16 range {}", name));
                    }
                    let d = d as i16 as u16;
                    self.b[pos + 2] = (d >> 8) as u8;
                    self.b[pos + 3] = d as u8;
                }
                Fix::Abs24Split => {
                    self.b[pos + 1] = (t >> 16) as u8;
                    self.b[pos + 2] = (t >> 8) as u8;
                    self.b[pos + 3] = t as u8;
                }
                Fix::Abs24Ext => {
                    self.b[pos] = 0;
                    self.b[pos + 1] = (t >> 16) as u8;
                    self.b[pos + 2] = (t >> 8) as u8;
                    self.b[pos + 3] = t as u8;
                }
                Fix::Abs32 => {
                    self.b[pos] = (t >> 24) as u8;
                    self.b[pos + 1] = (t >> 16) as u8;
                    self.b[pos + 2] = (t >> 8) as u8;
                    self.b[pos + 3] = t as u8;
                }
            }
        }
        Ok((self.org, self.b, self.labels))
    }
    fn fix(&mut self, name: &str, k: Fix) {
        self.fixes.push((self.b.len(), name.to_string(), k));
    }
    // ---- data transfer
    pub fn mov_b_imm(&mut self, rd: u8, v: u8) {
        self.w(0xf000 | (rd as u16) << 8 | v as u16)
    }
    pub fn mov_w_imm(&mut self, rd: u8, v: u16) {
        self.w(0x7900 | rd as u16);
        self.w(v)
    }
    pub fn mov_l_imm(&mut self, erd: u8, v: u32) {
        self.w(0x7a00 | erd as u16);
        self.w((v >> 16) as u16);
        self.w(v as u16)
    }
    pub fn mov_l_label(&mut self, erd: u8, name: &str) {
        self.w(0x7a00 | erd as u16);
        self.fix(name, Fix::Abs32);
        self.w(0);
        self.w(0)
    }
    pub fn mov_b_rr(&mut self, rs: u8, rd: u8) {
        self.w(0x0c00 | (rs as u16) << 4 | rd as u16)
    }
    pub fn mov_w_rr(&mut self, rs: u8, rd: u8) {
        self.w(0x0d00 | (rs as u16) << 4 | rd as u16)
    }
    pub fn mov_l_rr(&mut self, ers: u8, erd: u8) {
        self.w(0x0f80 | (ers as u16) << 4 | erd as u16)
    }
    pub fn mov_b_store_ind(&mut self, rs: u8, erd: u8) {
        self.w(0x6880 | (erd as u16) << 4 | rs as u16)
    }
    pub fn mov_b_load_ind(&mut self, ers: u8, rd: u8) {
        self.w(0x6800 | (ers as u16) << 4 | rd as u16)
    }
    pub fn mov_w_store_ind(&mut self, rs: u8, erd: u8) {
        self.w(0x6980 | (erd as u16) << 4 | rs as u16)
    }
    pub fn mov_b_store_abs24(&mut self, rs: u8, a: u32) {
        self.w(0x6aa0 | rs as u16);
        self.w((a >> 16) as u16 & 0xff);
        self.w(a as u16)
    }
    pub fn mov_b_load_abs24(&mut self, a: u32, rd: u8) {
        self.w(0x6a20 | rd as u16);
        self.w((a >> 16) as u16 & 0xff);
        self.w(a as u16)
    }
    pub fn mov_b_store_abs8(&mut self, rs: u8, aa: u8) {
        self.w(0x3000 | (rs as u16) << 8 | aa as u16)
    }
    pub fn mov_l_store_abs24(&mut self, ers: u8, a: u32) {
        self.w(0x0100);
        self.w(0x6ba0 | ers as u16);
        self.w((a >> 16) as u16 & 0xff);
        self.w(a as u16)
    }
    pub fn mov_l_load_abs24(&mut self, a: u32, erd: u8) {
        self.w(0x0100);
        self.w(0x6b20 | erd as u16);
        self.w((a >> 16) as u16 & 0xff);
        self.w(a as u16)
    }
    pub fn mov_l_store_disp16(&mut self, ers: u8, erd: u8, d: u16) {
        self.w(0x0100);
        self.w(0x6f80 | (erd as u16) << 4 | ers as u16);
        self.w(d)
    }
    pub fn push_l(&mut self, er: u8) {
        self.w(0x0100);
        self.w(0x6df0 | er as u16)
    }
    pub fn pop_l(&mut self, er: u8) {
        self.w(0x0100);
        self.w(0x6d70 | er as u16)
    }
    pub fn push_w(&mut self, r: u8) {
        self.w(0x6df0 | r as u16)
    }
    pub fn pop_w(&mut self, r: u8) {
        self.w(0x6d70 | r as u16)
    }
    // ---- arithmetic / logic
    pub fn add_b_imm(&mut self, rd: u8, v: u8) {
        self.w(0x8000 | (rd as u16) << 8 | v as u16)
    }
    pub fn add_w_rr(&mut self, rs: u8, rd: u8) {
        self.w(0x0900 | (rs as u16) << 4 | rd as u16)
    }
    pub fn add_l_rr(&mut self, ers: u8, erd: u8) {
        self.w(0x0a80 | (ers as u16) << 4 | erd as u16)
    }
    pub fn sub_w_rr(&mut self, rs: u8, rd: u8) {
        self.w(0x1900 | (rs as u16) << 4 | rd as u16)
    }
    pub fn adds(&mut self, n: u8, erd: u8) {
        self.w(match n {
            1 => 0x0b00,
            2 => 0x0b80,
            _ => 0x0b90,
        } | erd as u16)
    }
    pub fn subs(&mut self, n: u8, erd: u8) {
        self.w(match n {
            1 => 0x1b00,
            2 => 0x1b80,
            _ => 0x1b90,
        } | erd as u16)
    }
    pub fn xor_b_rr(&mut self, rs: u8, rd: u8) {
        self.w(0x1500 | (rs as u16) << 4 | rd as u16)
    }
    pub fn and_b_imm(&mut self, rd: u8, v: u8) {
        self.w(0xe000 | (rd as u16) << 8 | v as u16)
    }
    pub fn inc_b(&mut self, rd: u8) {
        self.w(0x0a00 | rd as u16)
    }
    pub fn dec_b(&mut self, rd: u8) {
        self.w(0x1a00 | rd as u16)
    }
    pub fn dec_w1(&mut self, rd: u8) {
        self.w(0x1b50 | rd as u16)
    }
    pub fn dec_l1(&mut self, erd: u8) {
        self.w(0x1b70 | erd as u16)
    }
    pub fn mulxu_w(&mut self, rs: u8, erd: u8) {
        self.w(0x5200 | (rs as u16) << 4 | erd as u16)
    }
    pub fn mulxu_b(&mut self, rs: u8, rd: u8) {
        self.w(0x5000 | (rs as u16) << 4 | rd as u16)
    }
    pub fn rotl_b(&mut self, rd: u8) {
        self.w(0x1280 | rd as u16)
    }
    pub fn shlr_w(&mut self, rd: u8) {
        self.w(0x1110 | rd as u16)
    }
    pub fn cmp_b_imm(&mut self, rd: u8, v: u8) {
        self.w(0xa000 | (rd as u16) << 8 | v as u16)
    }
    pub fn bset_abs8(&mut self, bit: u8, aa: u8) {
        self.w(0x7f00 | aa as u16);
        self.w(0x7000 | (bit as u16) << 4)
    }
    pub fn bclr_abs8(&mut self, bit: u8, aa: u8) {
        self.w(0x7f00 | aa as u16);
        self.w(0x7200 | (bit as u16) << 4)
    }
    pub fn stc_b(&mut self, rd: u8) {
        self.w(0x0200 | rd as u16)
    }
    // ---- control
    pub fn bcc8(&mut self, cc: u8, name: &str) {
        self.fix(name, Fix::Rel8);
        self.w(0x4000 | (cc as u16) << 8)
    }
    pub fn bcc16(&mut self, cc: u8, name: &str) {
        self.fix(name, Fix::Rel16);
        self.w(0x5800 | (cc as u16) << 4);
        self.w(0)
    }
    pub fn bsr8(&mut self, name: &str) {
        self.fix(name, Fix::Rel8);
        self.w(0x5500)
    }
    pub fn bsr16(&mut self, name: &str) {
        self.fix(name, Fix::Rel16);
        self.w(0x5c00);
        self.w(0)
    }
    pub fn jsr_abs(&mut self, name: &str) {
        self.fix(name, Fix::Abs24Split);
        self.w(0x5e00);
        self.w(0)
    }
    pub fn jsr_ind(&mut self, er: u8) {
        self.w(0x5d00 | (er as u16) << 4)
    }
    pub fn jsr_mind(&mut self, aa: u8) {
        self.w(0x5f00 | aa as u16)
    }
    pub fn jmp_abs(&mut self, name: &str) {
        self.fix(name, Fix::Abs24Split);
        self.w(0x5a00);
        self.w(0)
    }
    pub fn jmp_abs_addr(&mut self, a: u32) {
        self.w(0x5a00 | (a >> 16) as u16 & 0xff);
        self.w(a as u16)
    }
    pub fn jmp_ind(&mut self, er: u8) {
        self.w(0x5900 | (er as u16) << 4)
    }
    pub fn jmp_mind(&mut self, aa: u8) {
        self.w(0x5b00 | aa as u16)
    }
    pub fn rts(&mut self) {
        self.w(0x5470)
    }
    pub fn rte(&mut self) {
        self.w(0x5670)
    }
    pub fn trapa(&mut self, n: u8) {
        self.w(0x5700 | (n as u16) << 4)
    }
    /// 24-bit address of a label as two extension words 00hh llll (used with a preceding opcode word)
    pub fn ext24(&mut self, name: &str) {
        self.fix(name, Fix::Abs24Ext);
        self.w(0);
        self.w(0)
    }
    pub fn long_label(&mut self, name: &str) {
        self.fix(name, Fix::Abs32);
        self.w(0);
        self.w(0)
    }
}
