//! Small deterministic PRNG (splitmix64); all random choices derive from VERIF_SEED.
#[derive(Clone)]
pub struct Rng(pub u64);

impl Rng {
    pub fn new(seed: u64, stream: u64) -> Self {
        let mut r = Rng(seed ^ stream.wrapping_mul(0x9E3779B97F4A7C15) ^ 0xD1B54A32D192ED03);
        r.next();
        r
    }
    pub fn next(&mut self) -> u64 {
        self.0 = self.0.wrapping_add(0x9E3779B97F4A7C15);
        let mut z = self.0;
        z = (z ^ (z >> 30)).wrapping_mul(0xBF58476D1CE4E5B9);
        z = (z ^ (z >> 27)).wrapping_mul(0x94D049BB133111EB);
        z ^ (z >> 31)
    }
    pub fn u32(&mut self) -> u32 {
        (self.next() >> 32) as u32
    }
    pub fn u16(&mut self) -> u16 {
        (self.next() >> 48) as u16
    }
    pub fn u8(&mut self) -> u8 {
        (self.next() >> 56) as u8
    }
    pub fn below(&mut self, n: usize) -> usize {
        if n == 0 {
            0
        } else {
            (self.next() % n as u64) as usize
        }
    }
    pub fn pick<T: Copy>(&mut self, v: &[T]) -> T {
        v[self.below(v.len())]
    }
    pub fn chance(&mut self, num: usize, den: usize) -> bool {
        self.below(den) < num
    }
}

pub fn hash_str(s: &str) -> u64 {
    let mut h: u64 = 0xcbf29ce484222325;
    for b in s.bytes() {
        h ^= b as u64;
        h = h.wrapping_mul(0x100000001b3);
    }
    h
}
