//! The instruction form table exported by TLC from H8Forms.tla (work/forms.ndjson).
//! The drivers only instantiate its bit patterns; they hold no encoding knowledge of their own.
use anyhow::{anyhow, Result};
use serde_json::Value;

#[derive(Clone, Debug)]
pub struct Desc {
    pub k: String,
    pub wi: usize,
    pub p: usize,
    pub xi: usize,
}
impl Desc {
    pub fn is_mem(&self) -> bool {
        matches!(self.k.as_str(), "IND" | "D16" | "D24" | "INC" | "DEC" | "A8" | "A16" | "A24")
    }
    pub fn has_nib(&self) -> bool {
        matches!(self.k.as_str(), "R" | "RW" | "RL" | "RB8" | "IND" | "D16" | "D24" | "INC" | "DEC" | "B3" | "BR")
    }
}

#[derive(Clone, Debug)]
pub struct Form {
    pub idx: usize,
    pub id: String,
    pub mn: String,
    pub sz: u32,
    pub w: Vec<(u16, u16)>, // (mask, value) per word
    pub a: Desc,
    pub b: Desc,
    pub x: i64,
    pub st: String,
    pub cy: [u8; 6],
}

fn desc(v: &Value) -> Result<Desc> {
    let a = v.as_array().ok_or_else(|| anyhow!("desc"))?;
    Ok(Desc {
        k: a[0].as_str().unwrap_or("-").to_string(),
        wi: a[1].as_u64().unwrap_or(0) as usize,
        p: a[2].as_u64().unwrap_or(0) as usize,
        xi: a[3].as_u64().unwrap_or(0) as usize,
    })
}

pub fn load(path: &str) -> Result<Vec<Form>> {
    let text = std::fs::read_to_string(path)?;
    let mut out = Vec::new();
    for line in text.lines() {
        if line.trim().is_empty() {
            continue;
        }
        let v: Value = serde_json::from_str(line)?;
        let w = v["w"]
            .as_array()
            .ok_or_else(|| anyhow!("w"))?
            .iter()
            .map(|p| (p["m"].as_u64().unwrap() as u16, p["v"].as_u64().unwrap() as u16))
            .collect();
        let cyv = v["cy"].as_array().ok_or_else(|| anyhow!("cy"))?;
        let mut cy = [0u8; 6];
        for i in 0..6 {
            cy[i] = cyv[i].as_u64().unwrap_or(0) as u8;
        }
        out.push(Form {
            idx: v["idx"].as_u64().unwrap_or(0) as usize,
            id: v["id"].as_str().unwrap_or("").to_string(),
            mn: v["mn"].as_str().unwrap_or("").to_string(),
            sz: v["sz"].as_u64().unwrap_or(0) as u32,
            w,
            a: desc(&v["a"])?,
            b: desc(&v["b"])?,
            x: v["x"].as_i64().unwrap_or(0),
            st: v["st"].as_str().unwrap_or("").to_string(),
            cy,
        });
    }
    Ok(out)
}
